"""C42 — lazy DataFrame metadata matches computed results (whole result and each partition).

Statement (fixed): for any dataframe program, the computed object's type (DataFrame, Series, Index or scalar),
column names and order, dtypes, index name and index dtype agree with the lazy ``._meta``.  Each computed partition
agrees with it as well.

Monitor: the cross-cutting ``vf.gen.frames.meta_violation(collection, value, parts)`` (object kind, column names and
order, dtypes with str/object equivalence, Series name, index names, index dtype of non-empty objects) applied to

* the whole computed result, and
* every partition computed separately (``collection.partitions[i]``, all partitions in one ``dask.compute`` call;
  empty partitions are compared on structure only - kind, columns, dtypes, names - not on index dtype),

and, when the meta itself agrees, the PUBLIC views of the meta (``.columns``, ``.dtypes`` / ``.dtype``, ``.name``,
``.index.name``) against the computed object.

Programs (one JSON description each, dask and pandas driven from it; pandas is only used to reject invalid programs):
(a) the C36 pipelines (``vf.gen.c36_pipelines``: projection, filter, assign, arithmetic/comparison, astype, fillna,
where/mask, isin, clip, map/apply with meta, rename, str/dt/cat accessors, second differently partitioned operands);
(b) compact C37-C40 / C46 style programs (``vf.gen.c42_programs``): reductions on series and frames (sum / mean /
count / min / max / std / var / nunique / value_counts / describe / any / all / idxmin ..., axis 0 and 1, skipna,
split_every) giving scalars and Series, groupby aggregations (method / str / list / dict / named specs, series and
frame selections, categorical / NA / multiple keys, split_out 1|2, sort, observed, dropna), merge / join (inner /
outer / left / right on columns, index, mixed; suffixes, indicator, broadcast, shuffle_method), concat (axis 0 inner /
outer with different columns, axis 1 co-aligned), set_index / sort_values / drop_duplicates / reset_index / shuffle /
nlargest, rolling / cumulative / shift / diff / ffill / bfill, repartition (npartitions, divisions) / head / tail /
sample / loc / partitions / dropna / map_partitions, Index-valued programs, and astype / categorize programs (dict,
series and frame targets incl. category, nullable and str dtypes).

(c) CONSUMER programs (``vf.gen.c42_programs`` classes ``indexcol``, ``pushdown``, ``select-after``): an operation
followed by a consumer, so that the optimizer's ``_simplify_up`` / ``_simplify_down`` rules fire with the operation as
the PARENT's child - a single reader and siblings.  ``indexcol``: the index <-> column moves ``reset_index(drop=)`` of
Series and frames, ``set_index(col, drop=)``, ``rename_axis``, ``index.to_series()``, ``index.to_frame(name=)``,
``to_frame(name=)``, ``Series.rename(name)``, ``squeeze``, ``Series.add_prefix / add_suffix`` (1-3 moves, optionally a
filter / projection in between) on a frame whose index is int / datetime / str / categorical, unnamed / named / named like
a column ("a", "c") / literally named "index", sorted unique / with duplicates / unsorted, optionally with a COLUMN called
"index" (the new column is then "level_0"); ``Series.reset_index(name=)`` and ``reset_index(level=)`` do not exist in dask
(``rename(name).reset_index()`` is generated instead).  ``pushdown``: one frame operation of ``_expr.py`` that the older
classes only produce as the last step (add_prefix / add_suffix, drop, explode, combine_first, rename, columns setter, copy,
dropna, abs, round, isna, notnull, replace, neg, invert, fillna, ffill, bfill, diff, shift, head / tail of an elementwise
expression, nested scalar multiplication, map_partitions(required_columns=), rename_axis, to_frame, index.to_frame /
to_series, sample, partitions, repartition, clear_divisions, cumsum, loc[:, cols]).  ``select-after``: a program of the
classes merge / concat / shuffle / window / repartition / astype / groupby-agg / reduction followed by a consumer.
Consumers: ``[col]``, ``[[cols]]`` (subset, frame order / reversed / as drawn), arithmetic on one column, on two sibling
columns, ``R[pred(R[c])]`` with and without a following selection, ``R[c][pred(R[c2])]``, ``assign(z=f(R[c]))`` with and
without selection, ``.index`` (of the frame, of a selection, of a filter), ``count`` / column reductions,
``reset_index()[col]``; for ``indexcol`` they prefer the column made from the index ("index", "level_0", the index name,
the ``to_frame(name=)``).  For these classes the VALUES are compared too: indexcol / pushdown against pandas running the
same program (``vf.gen.frames.compare``; rows as a multiset after set_index / an index shuffle, the index not compared once
reset_index made it a numbering per partition, dtypes left to the meta monitor), select-after against pandas applying the
same consumer to the COMPUTED result of the program without its consumer (row multisets) - the consumer must not change
what the program yields.

A dask exception while building or computing a program of (a) / (b) is NOT a C42 matter (the owning property C36-C40/C46
reports it): such cases are skipped as ``unsupported`` and counted (``dask_raised_owned_by_other_property``).  No other
property runs the consumer programs (c): there a dask exception IS reported (``...:raises:<ExcType>``) when pandas accepts
the program and the program WITHOUT its consumer computes, agrees with its meta and has pandas' kind and columns
(otherwise the failure is the inner operation's: skipped and counted as above).

Labels: ``<operation class>:<form>:<facet>`` e.g. ``groupby-agg:dict-spec:frame:meta-dtype``; for C36 pipelines the
class is ``c36:<family of the last step of the shortest prefix that shows the facet>``.  Facets: meta-kind,
meta-columns, meta-dtype, meta-name, meta-index-name, meta-index-dtype, public-columns, public-dtypes, public-name,
public-index-name; a dtype facet carries the two dtypes, ``meta-dtype(str->int64)``; it is called
``meta-dtype(value-dependent)`` when pandas itself, run on the EMPTY input frame(s), reports the dtype the meta says and
pandas on the full input reports the computed dtype (the meta is what pandas infers without data, the computed dtype is
pandas' value-dependent upcast: int -> float when a NaN, a float replacement or an unmatched merge row actually appears); this one mechanism is labelled per top-level
class only (``merge:meta-dtype(value-dependent)``, ``c36-elementwise:...``); the suffix ``@partition`` marks
disagreements visible only in separately computed partitions.

Consumer labels: a disagreement the program WITHOUT its consumer already shows is labelled by the inner operation
(select-after: exactly as class (b) labels it; pushdown: ``pushdown:<op>:<facet>``; indexcol: the first move after which
the meta disagrees, ``indexcol:<series|frame>.<move>:<index naming>:<facet>``).  What only the consumer shows is labelled
``<head>:<facet>`` / ``<head>:vs-pandas:<kind>`` / ``<head>:vs-unconsumed:<kind>`` / ``<head>:raises:<ExcType>`` with head =
``indexcol:<structural features>><consumer family>[(index-column)]:<index naming>`` (features: series.reset_index /
frame.reset_index[(drop)], level_0, unnamed-series, set_index, index-read, relabel, to_frame, filter / filters>=2),
``pushdown:<op>><family>``, ``select-after:<class>:<form>><family>``, except for mechanisms recognised by a predicate:
``<class>:series.reset_index>getcol:<values | values-of-unnamed-series | level-of-multiindex | index-column-called-index |
index-column-called-level_0 | index-column-called-like-the-index>`` (a Series.reset_index() read by ONE column selection:
the Series branch of ResetIndex._simplify_up), ``indexcol:reset_index+filter`` / ``+filters>=2`` (filters above a
reset_index), ``indexcol:reset_index:new-column-called-level_0:raises:KeyError``,
``select-after:window:rolling:frame>column-selection``, ``select-after:groupby-agg:column-list-selection>consumer``.  A
computed Series with another NAME than the meta is facet ``meta-name`` whatever the dtypes are.

Calibration (unchanged tree)
----------------------------
* consumer classes, false alarms corrected: ``set_index(col)`` on the name the index already has is a documented no-op in
  dask (not generated); an Index inside ``[]`` is a list of column labels in dask (the index is read through
  ``index.to_series()``); a merge on columns defines no index and reset_index numbers every partition from 0 (index not
  compared there); ``series[label]`` is a scalar only in pandas (select-after does not compare it); combine_first on
  duplicate index labels pairs every duplicate with every duplicate in pandas (unique indexes only); a consumer of a
  ``sort_values`` / ``set_index`` result that reads it twice gets two differently projected sorts whose ties may be ordered
  differently (run-to-run different, seen once as ``sorted[sorted.a > 1].index`` pairing the index of one sort with the mask
  of the other): only single-reader consumers are generated there; dynamic consumers treat every non-numeric column alike
  (isna / notnull), because after an outer merge a bool column holds NaN whatever the meta says; two-level and repeated
  column labels are not consumed and a column is never requested twice (dask cannot concatenate such partitions when a
  categorical or an overlap is involved); ``map_partitions(required_columns=)`` is generated with ``meta=`` (without it the
  rule fails on ``self.meta[...]``: TypeError - reported to the lead, not a meta matter); ``R[mask(R)].index`` is not
  generated after merge / shuffle / groupby programs (``Index(Filter)`` becomes ``Index(R)[mask(R')]``, two copies paired by
  position: run-dependent where the row order of R is unspecified); ``set_index`` is not generated on an integer column
  label (TypeError in SetIndex._simplify_up).  See /verif/findings_proposed/C42.md, round 2, for the side findings.
* user functions (C36 map / apply) get a COMPLETE meta (empty pandas Series carrying the input's index): the documented
  ``(name, dtype)`` tuple cannot describe the index, so an index-name disagreement would be the user's meta, not dask's.
* ``DataFrame.pct_change`` does not exist in dask and is not generated; rolling programs require known divisions
  (documented ValueError otherwise) and ``head(npartitions=k)`` is only generated with k in {1, -1}.
"""
from __future__ import annotations

import random
import re
import warnings

PROP = "C42"
RULE = ("cases = (source, operation class, case seed); source c36 = a random C36 pipeline (2-5 row-wise/elementwise "
        "operations), source ops = one program of the forced class (reduction, groupby-agg, merge, concat, shuffle, window, "
        "repartition, index, astype; consumer classes indexcol = 1-3 index<->column moves on an int/datetime/str/categorical, "
        "unnamed/named/column-named index + a consumer, pushdown = one _expr.py frame operation + a consumer, select-after = a "
        "program of the older classes + a consumer; consumer = column selection(s), sibling arithmetic, filter, assign, .index, "
        "reduction) with random parameters; the seed also determines the frame (0-40 rows, 9 typed columns, 7 "
        "index kinds) and the partitioning (from_pandas npartitions|chunksize, from_map/from_delayed slices incl. empty "
        "partitions, cleared divisions); every case computes the whole result and every partition separately; "
        "non-trivial = result collection has >= 2 partitions or is a scalar of a >= 2-partition input; distinct = distinct "
        "(program description, frame seed, index kind, partitioning)")
ASSUMPTIONS = [
    "vf.gen.frames.meta_violation is the comparison discipline (str/object dtype equivalence, index dtype only for non-empty objects)",
    "dask.dataframe is imported through the pyarrow import stub (pandas-backed strings); sync scheduler",
]
BUDGET = {"quick": 120, "thorough": 900}
MEASURED_MIN_QUICK = {      # minimum over the seeds 0, 1, 2, 7, 12345 on the unchanged tree (complete streams of 2720 cases)
    "c36_pipelines_checked": 581, "consumer_reads_former_index_column": 185, "empty_partitions_checked": 1444,
    "frame_results": 1269, "index-dtype:cat": 85, "index-dtype:dt": 77, "index-dtype:int": 183, "index-dtype:str": 87,
    "index:named": 84, "index:named-index": 51, "index:named-like-column": 100, "index:unnamed": 200,
    "index_results": 73, "indexcol_programs_checked": 466, "meta_checked_partitions": 8098,
    "meta_checked_results": 2546, "move:add_prefix": 5, "move:add_suffix": 3, "move:filter": 63,
    "move:index_to_frame": 39, "move:index_to_series": 41, "move:project": 11, "move:rename": 49,
    "move:rename_axis": 99, "move:reset_index": 282, "move:set_index": 60, "move:squeeze": 27, "move:to_frame": 46,
    "ops_programs_checked": 1953, "public_views_checked": 2546, "pushdown:abs": 8, "pushdown:add_prefix": 7,
    "pushdown:add_suffix": 7, "pushdown:bfill": 5, "pushdown:clear_divisions": 7, "pushdown:copy": 8,
    "pushdown:cumsum": 7, "pushdown:diff": 4, "pushdown:drop": 7, "pushdown:dropna": 8, "pushdown:dropna-subset": 8,
    "pushdown:explode": 7, "pushdown:ffill": 5, "pushdown:fillna": 7, "pushdown:fillna-dict": 8,
    "pushdown:head-elemwise": 8, "pushdown:head-repartition": 7, "pushdown:index-to_frame": 6,
    "pushdown:index-to_series": 4, "pushdown:invert": 8, "pushdown:isna": 8, "pushdown:loc-cols": 7,
    "pushdown:map_partitions-required": 8, "pushdown:mulmul": 8, "pushdown:neg": 8, "pushdown:notnull": 8,
    "pushdown:partitions": 7, "pushdown:rename": 7, "pushdown:rename-swap": 8, "pushdown:rename_axis": 7,
    "pushdown:repartition": 7, "pushdown:replace": 8, "pushdown:round": 8, "pushdown:sample": 7,
    "pushdown:series-rename": 8, "pushdown:set_columns": 8, "pushdown:shift": 6, "pushdown:tail-elemwise": 8,
    "pushdown:to_frame": 8, "pushdown_programs_checked": 296, "scalar_results": 114, "select-after:astype": 23,
    "select-after:concat": 22, "select-after:groupby-agg": 49, "select-after:merge": 44, "select-after:reduction": 24,
    "select-after:repartition": 20, "select-after:shuffle": 43, "select-after:window": 19,
    "select_after_programs_checked": 293, "series_reset_index_single_getcol:index-column": 53,
    "series_reset_index_single_getcol:values": 16, "series_reset_index_single_getcol_of_column_index": 29,
    "series_reset_index_then_consumer": 68, "series_results": 1027, "simplify_rewrote:indexcol": 360,
    "simplify_rewrote:pushdown": 264, "simplify_rewrote:select-after": 232, "tail:arith1": 57, "tail:arith2": 48,
    "tail:assign": 17, "tail:assign-getcols": 48, "tail:count": 13, "tail:filter": 24, "tail:filter-getcol": 91,
    "tail:filter-getcols": 54, "tail:filter-index": 10, "tail:getcol": 168, "tail:getcols": 104,
    "tail:getcols-index": 12, "tail:index": 14, "tail:reduce": 34, "tail:reset-getcol": 22, "tail:reset-getcols": 7,
    "tail:s-arith": 16, "tail:s-filter": 23, "tail:s-index": 6, "tail:s-label": 8, "tail:s-reduce": 7,
    "tail:s-to_frame-getcol": 6, "tail:self": 33, "tail:sfilter": 39, "values_compared_with_pandas": 712,
    "values_compared_with_unconsumed_result": 280,
}
MEASURED_MIN_THOROUGH = {   # one complete thorough run (seed 0, 32400 cases) on the unchanged tree
    "c36_pipelines_checked": 8899, "consumer_reads_former_index_column": 1564, "empty_partitions_checked": 18591,
    "frame_results": 17625, "index-dtype:cat": 684, "index-dtype:dt": 721, "index-dtype:int": 1460,
    "index-dtype:str": 688, "index:named": 795, "index:named-index": 387, "index:named-like-column": 786,
    "index:unnamed": 1585, "index_results": 833, "indexcol_programs_checked": 3553, "meta_checked_partitions": 98093,
    "meta_checked_results": 30487, "move:add_prefix": 74, "move:add_suffix": 44, "move:filter": 579,
    "move:index_to_frame": 356, "move:index_to_series": 365, "move:project": 149, "move:rename": 414,
    "move:rename_axis": 865, "move:reset_index": 2226, "move:set_index": 502, "move:squeeze": 272,
    "move:to_frame": 378, "ops_programs_checked": 21588, "public_views_checked": 30487, "pushdown:abs": 59,
    "pushdown:add_prefix": 59, "pushdown:add_suffix": 59, "pushdown:bfill": 45, "pushdown:clear_divisions": 58,
    "pushdown:combine_first": 25, "pushdown:combine_first-other": 7, "pushdown:copy": 59, "pushdown:cumsum": 58,
    "pushdown:diff": 49, "pushdown:drop": 59, "pushdown:dropna": 59, "pushdown:dropna-subset": 59,
    "pushdown:explode": 59, "pushdown:ffill": 46, "pushdown:fillna": 57, "pushdown:fillna-dict": 59,
    "pushdown:head-elemwise": 58, "pushdown:head-repartition": 58, "pushdown:index-to_frame": 57,
    "pushdown:index-to_series": 45, "pushdown:invert": 59, "pushdown:isna": 59, "pushdown:loc-cols": 58,
    "pushdown:map_partitions-required": 58, "pushdown:mulmul": 58, "pushdown:neg": 59, "pushdown:notnull": 59,
    "pushdown:partitions": 58, "pushdown:rename": 59, "pushdown:rename-swap": 59, "pushdown:rename_axis": 56,
    "pushdown:repartition": 58, "pushdown:replace": 59, "pushdown:round": 59, "pushdown:sample": 58,
    "pushdown:series-rename": 58, "pushdown:set_columns": 59, "pushdown:shift": 46, "pushdown:tail-elemwise": 58,
    "pushdown:to_frame": 58, "pushdown_programs_checked": 2249, "scalar_results": 1302, "select-after:astype": 210,
    "select-after:concat": 191, "select-after:groupby-agg": 440, "select-after:merge": 443,
    "select-after:reduction": 211, "select-after:repartition": 185, "select-after:shuffle": 378,
    "select-after:window": 177, "select_after_programs_checked": 2235,
    "series_reset_index_single_getcol:index-column": 509, "series_reset_index_single_getcol:values": 149,
    "series_reset_index_single_getcol_of_column_index": 284, "series_reset_index_then_consumer": 606,
    "series_results": 10727, "simplify_rewrote:indexcol": 2804, "simplify_rewrote:pushdown": 2029,
    "simplify_rewrote:select-after": 1834, "tail:arith1": 486, "tail:arith2": 532, "tail:assign": 167,
    "tail:assign-getcols": 388, "tail:count": 104, "tail:filter": 229, "tail:filter-getcol": 773,
    "tail:filter-getcols": 452, "tail:filter-index": 125, "tail:getcol": 1527, "tail:getcols": 846,
    "tail:getcols-index": 136, "tail:index": 125, "tail:reduce": 340, "tail:reset-getcol": 229,
    "tail:reset-getcols": 113, "tail:s-arith": 150, "tail:s-filter": 191, "tail:s-filter-index": 36,
    "tail:s-index": 49, "tail:s-label": 70, "tail:s-reduce": 82, "tail:s-to_frame-getcol": 133, "tail:self": 406,
    "tail:sfilter": 348, "values_compared_with_pandas": 5433, "values_compared_with_unconsumed_result": 2113,
}


def _floors(measured):
    """45 % of the measured counts (counters that would get a floor of 0 carry none)"""
    return {k: int(v * 0.45) for k, v in measured.items() if int(v * 0.45) >= 1}


FLOORS = {
    # quick: 2720 evaluations, >= 1796 distinct non-trivial; skipped (rejected + unsupported) <= 6.2 %
    "quick": {"evaluations": 1220, "distinct_nontrivial": 800, "counters": _floors(MEASURED_MIN_QUICK),
              "sets": {"program_forms": 700, "consumer_kinds": 18, "index_variants": 45, "pushdown_ops": 30},
              "max_skipped_fraction": 0.35},
    # thorough: 32400 evaluations, 21644 distinct non-trivial
    "thorough": {"evaluations": 14500, "distinct_nontrivial": 9700, "counters": _floors(MEASURED_MIN_THOROUGH),
                 "sets": {"program_forms": 4667, "consumer_kinds": 18, "index_variants": 60, "pushdown_ops": 32},
                 "max_skipped_fraction": 0.35},
}
EXHAUSTIVE_SPACE = None
CLAIM = ("For every generated program (C36 pipelines, compact reduction / groupby / merge / concat / shuffle / window / "
         "repartition / index programs, and index<->column moves, _expr.py frame operations and the compact programs followed by "
         "a consumer) the computed result and every separately computed partition were compared with "
         "the lazy ._meta (kind, columns and order, dtypes, names, index name and dtype) and with the public views of the "
         "meta; the values of the consumer programs with pandas. Held means: no disagreement among the executions observed "
         "(beyond the PENDING mechanisms listed).")
LEVEL_NOTE = "trusts vf.gen.frames.meta_violation and pandas dtype reporting; Arrow-backed strings are not exercised"
TECHNIQUE = "runtime monitoring: cross-cutting meta monitor (lazy ._meta vs computed result and each computed partition)"
CASE_TIMEOUT = 90

# labels listed as known findings in /verif/known_findings.d/C42.json (everything else was fixed, see /verif/fixes_ready)
PENDING = {
    'c36:str-plus-literal-then-str-accessor:meta-dtype':
        '(s + "lit").str.upper(): object meta of the concatenation gives a float64 meta for the .str call; computed str/bool',
    'c36:str:split-expand:meta-columns':
        'str.split(n=, expand=True) on a result without rows computes 0 columns; the meta promises n+1',
    'value-dependent-dtype:meta-is-what-pandas-infers-without-data':
        'computed dtype (whole result or a single partition) differs from ._meta for operations whose pandas result dtype depends on the values: outer/left/rig',
    'c36:str.len:meta-dtype(float64->int64)':
        'ddf.b.str.len() has meta float64, computes int64 (pandas int64 on the data and on the empty column)',
    'window:cumulative-int:meta-dtype(int64->float64)':
        'cumsum/cumprod/cummax/cummin of an int64 column compute float64, meta says int64 (pandas keeps int64)',
    'c36:apply:axis1:empty-partition:meta-dtype':
        'DataFrame.apply(axis=1, meta=) on an empty partition yields a float64 piece; the partition / concatenated result no longer has the given bool/str/int ',
    'c36:other:assign:meta-dtype':
        'assign of a differently partitioned series adds all-NaN rows, upcasting existing columns; the meta does not say so',
}

def _known_consumer_labels():
    """the consumer-class labels listed in /verif/known_findings.d/C42.json (key -> what)"""
    import json
    import os

    try:
        with open(os.path.join(os.path.dirname(os.path.dirname(os.path.dirname(os.path.abspath(__file__)))),
                               "known_findings.d", "C42.json")) as f:
            return {e["key"]: e["what"][:150] for e in json.load(f)["findings"] if e["key"] not in PENDING}
    except Exception:  # noqa: BLE001
        return {}


PENDING.update(_known_consumer_labels())

OPS_CLASSES = ("reduction", "groupby-agg", "merge", "concat", "shuffle", "window", "repartition", "index", "astype")
# classes whose programs end with a CONSUMER (column selection / filter / arithmetic / assign / index) of the operation
NEW_CLASSES = ("indexcol", "pushdown", "indexcol", "select-after", "indexcol", "pushdown", "select-after")
N_OLD = {"quick": 1600, "thorough": 24000}
N_NEW = {"quick": 1120, "thorough": 8400}


def cases(tier, seed):
    rng = random.Random(seed * 2246822519 % (2 ** 31) + 42)
    n = N_OLD[tier]
    j = 0
    for i in range(n):
        if i % 5 < 2:
            yield {"src": "c36", "cs": rng.randrange(2 ** 31)}
        else:
            yield {"src": "ops", "klass": OPS_CLASSES[j % len(OPS_CLASSES)], "cs": rng.randrange(2 ** 31)}
            j += 1
    rng = random.Random(seed * 2654435761 % (2 ** 31) + 4242)
    k = seed
    for i in range(N_NEW[tier]):
        case = {"src": "ops", "klass": NEW_CLASSES[i % len(NEW_CLASSES)], "cs": rng.randrange(2 ** 31)}
        if case["klass"] == "pushdown":
            case["k"] = k           # the pushdown operations are taken in turn
            k += 1
        yield case


def shard_setup(tier, seed):
    from vf.gen import frames as F

    F.setup()
    import dask

    dask.config.set(scheduler="sync")
    warnings.simplefilter("ignore")


# --------------------------------------------------------------------------- programs
def build_ops(cs, klass, k=None):
    from vf.gen import c42_programs as Q
    from vf.gen import frames as F

    F.setup()
    rng = random.Random(cs)
    kind = rng.choice(F.INDEX_KINDS)
    pdf = F.rand_frame(cs, nmax=40, index=kind, cols="wide")
    pdesc = F.rand_partition_desc(rng, len(pdf), True)
    ddf = F.partition(pdf, pdesc) if klass != "indexcol" else None
    opdf = F.rand_frame(cs + 7, nmax=25, index=kind, cols="wide")
    odesc = F.rand_partition_desc(rng, len(opdf), True)
    oddf = F.partition(opdf, odesc)
    desc = Q.gen_program(rng, klass=klass, k=k)
    if klass == "indexcol":
        # the program names its own index: dtype int / datetime / str / categorical, unnamed / named / named like a column
        pdf = Q.prepare_frame(desc, pdf, cs)
        ix = desc["ix"]
        kind = "%s:%s:%s%s" % (ix["dtype"], "unnamed" if ix["name"] is None else "named=%s" % ix["name"], ix["order"],
                               ":column-called-index" if ix["colindex"] else "")
        ddf = F.partition(pdf, pdesc)
    return {"pdf": pdf, "ddf": ddf, "opdf": opdf, "oddf": oddf, "desc": desc, "kind": kind, "pdesc": pdesc, "odesc": odesc}


def _dname(name):
    n = str(name)
    if n.startswith("datetime64"):
        return "datetime64"
    if n in ("object", "string"):
        return "str"
    return n


def _column_of(obj, msg):
    """the computed / reference column a meta-dtype message talks about (None when it cannot be located)"""
    import pandas as pd

    mc = re.search(r"column (.+?): meta ", msg)
    if mc and isinstance(obj, pd.DataFrame):
        cols = [i for i, c in enumerate(obj.columns) if repr(c) == mc.group(1)]
        return obj.iloc[:, cols[0]] if cols else None
    return obj if isinstance(obj, pd.Series) else None


def facet_of(m, empty_ref=None, full_ref=None, val=None, parts=None):
    """(facet, message) of meta_violation -> refined facet.

    meta-dtype carries the two dtypes, e.g. ``meta-dtype(str->int64)``.  It is called
    ``meta-dtype(value-dependent)`` when pandas itself, run on the EMPTY input frame(s), reports the dtype the meta
    says AND pandas on the full input reports the computed dtype: then the meta is what pandas infers without data and
    the computed dtype is pandas' value-dependent upcast (int -> float when a NaN / a float replacement / an unmatched
    merge row actually appears).  For a single partition: both dtypes are among those two pandas answers."""
    kind, msg = m
    where = "@partition" if re.match(r"partition \d+: ", msg) else ""
    if kind == "meta-dtype":
        mm = re.search(r"meta (?:index dtype )?(\S+), computed (\S+)", msg)
        if mm:
            a, b = _dname(mm.group(1)), _dname(mm.group(2))
            kind = "meta-dtype(%s->%s)" % (a, b)
            try:
                e = _column_of(empty_ref, msg) if empty_ref is not None else None
                f = _column_of(full_ref, msg) if full_ref is not None else None
                e = _dname(e.dtype) if e is not None else None
                f = _dname(f.dtype) if f is not None else None
                if where:
                    # a partition deviates from a meta that agrees with pandas (on no data or on all data)
                    if a in (e, f) and b in (e, f):
                        kind = "meta-dtype(value-dependent)"
                    elif b == "float64" and a in (e, f) and parts is not None:
                        # a partition holding nothing but missing values: pandas answers float64 for any accessor
                        col = _column_of(parts[int(re.match(r"partition (\d+): ", msg).group(1))], msg)
                        if col is not None and len(col) and bool(col.isna().all()):
                            kind = "meta-dtype(value-dependent)"
                elif e == a and f == b:
                    kind = "meta-dtype(value-dependent)"
            except Exception:  # noqa: BLE001
                pass
    return kind + where


def public_views_violation(res, val):
    """the documented public views of the meta vs the computed object"""
    import pandas as pd

    from vf.gen.frames import _norm_dtype

    try:
        if isinstance(val, pd.DataFrame):
            if list(res.columns) != list(val.columns):
                return ("public-columns", ".columns %s, computed %s" % (list(res.columns), list(val.columns)))
            dt = res.dtypes
            for i, c in enumerate(val.columns):
                if _norm_dtype(dt.iloc[i]) != _norm_dtype(val.dtypes.iloc[i]):
                    return ("public-dtypes", ".dtypes[%r] = %s, computed %s" % (c, dt.iloc[i], val.dtypes.iloc[i]))
            if res.index.name != val.index.name and not isinstance(val.index, pd.MultiIndex):
                return ("public-index-name", ".index.name %r, computed %r" % (res.index.name, val.index.name))
        elif isinstance(val, pd.Series):
            if _norm_dtype(res.dtype) != _norm_dtype(val.dtype):
                return ("public-dtypes", ".dtype %s, computed %s" % (res.dtype, val.dtype))
            if res.name != val.name and not (pd.isna(res.name) and pd.isna(val.name)):
                return ("public-name", ".name %r, computed %r" % (res.name, val.name))
            if res.index.name != val.index.name and not isinstance(val.index, pd.MultiIndex):
                return ("public-index-name", ".index.name %r, computed %r" % (res.index.name, val.index.name))
        elif isinstance(val, pd.Index):
            if _norm_dtype(res.dtype) != _norm_dtype(val.dtype) and len(val):
                return ("public-dtypes", "index .dtype %s, computed %s" % (res.dtype, val.dtype))
            if res.name != val.name:
                return ("public-name", "index .name %r, computed %r" % (res.name, val.name))
    except AttributeError:
        return None
    return None


def observe(res):
    """-> (value, parts | None) computed with the sync scheduler; parts computed in ONE call, separately from value"""
    import dask

    val = res.compute(scheduler="sync")
    parts = None
    if hasattr(res, "npartitions") and hasattr(res, "partitions"):
        try:
            parts = dask.compute(*[res.partitions[i] for i in range(res.npartitions)], scheduler="sync")
        except NotImplementedError:
            parts = None
    return val, parts


def _name_first(res, val, m):
    """a computed Series that has another NAME than the meta (and another dtype) is another column: one facet ``meta-name``
    whatever the two dtypes are (meta_violation looks at the dtype first)"""
    import pandas as pd

    meta = getattr(res, "_meta", None)
    if m[0] == "meta-dtype" and isinstance(meta, pd.Series) and isinstance(val, pd.Series) and meta.name != val.name and \
            not (pd.isna(meta.name) and pd.isna(val.name)):
        return "meta-name", "result: meta name %r, computed %r (%s)" % (meta.name, val.name, m[1])
    return None


def check(res, val, parts, empty_ref=None, full_ref=None):
    """-> (facet, message) | None"""
    from vf.gen import frames as F

    m = F.meta_violation(res, val, parts=())
    if m is not None:
        return _name_first(res, val, m) or (facet_of(m, empty_ref, full_ref, val, parts), m[1])
    if parts:
        m = F.meta_violation(res, val, parts=parts)
        if m is not None:
            return facet_of(m, empty_ref, full_ref, val, parts), m[1]
    m = public_views_violation(res, val)
    if m is not None:
        return m
    return None


VALUE_DEPENDENT = "value-dependent-dtype:meta-is-what-pandas-infers-without-data"


def mechanism_label(case, desc, klass, facet, prefix):
    """<class>:<form>:<facet>, except for mechanisms recognised by an explicit predicate (one mechanism = one label):
    * VALUE_DEPENDENT - facet_of verified that pandas on empty input gives the meta's dtype and pandas on the data the
      computed one (whole result or a single partition, any operation class);
    * ``c36:apply:axis1:empty-partition:meta-dtype`` - the program contains DataFrame.apply(axis=1, meta=) and a
      float64 piece shows up where the meta says bool/str/int (pandas' result of apply on zero rows);
    * ``c36:other:assign:meta-dtype`` - assign of a differently partitioned series (outer alignment adds NaN rows);
    * ``c36:str.len:meta-dtype(float64->int64)`` - int-valued .str method: meta float64 from the NaN in the fake data;
    * ``c36:str-plus-literal-then-str-accessor:meta-dtype`` - ``(s + "lit").str.upper()``: the concatenation has an object
      meta, the .str call on it a float64 meta (C36 finding expr-node:AttributeError@StringAccessor.__init__);
    * ``window:cumulative-int:meta-dtype(int64->float64)`` - cumsum/cumprod/... of an int column computes float64."""
    import json

    if facet.startswith("meta-dtype(value-dependent)"):
        return VALUE_DEPENDENT
    dt = facet.startswith("meta-dtype(")
    if case["src"] == "c36":
        steps = prefix or desc["steps"]
        text = json.dumps(steps)
        if dt and "->float64)" in facet and any(st["op"] == "apply_rows" for st in steps):
            return "c36:apply:axis1:empty-partition:meta-dtype"
        if dt and any(st["op"] == "other" and st.get("mode") == "assign" for st in steps):
            return "c36:other:assign:meta-dtype"
        if facet.startswith("meta-dtype(float64->") and '["str", "' in text and \
                any(('["bin", "+", ["lit", "%s"]' % lit) in text or ('["lit", "%s"]]' % lit) in text for lit in ("_s", "p-", "x")):
            return "c36:str-plus-literal-then-str-accessor:meta-dtype"
        if facet.startswith("meta-dtype(float64->int64)") and '["str", "len"' in json.dumps(steps[-1]):
            return "c36:str.len:meta-dtype(float64->int64)"
        if klass.startswith("c36:str:split-expand") and facet.startswith("meta-columns"):
            return "c36:str:split-expand:meta-columns"
    elif desc["class"] == "window" and desc.get("op") == "cum" and facet.startswith("meta-dtype(int64->float64)"):
        return "window:cumulative-int:meta-dtype(int64->float64)"
    elif klass.startswith(("indexcol:series.add_prefix:", "indexcol:series.add_suffix:")) and facet.startswith("meta-index-name"):
        return "indexcol:series.add_prefix/add_suffix:named-index:meta-index-name"
    elif klass.startswith("pushdown:combine_first") and facet.startswith("meta-columns"):
        # pandas orders the columns of combine_first differently when an operand has no rows
        return "pushdown:combine_first:empty-operand:meta-columns"
    return "%s:%s" % (klass, facet)


CONSUMER_CLASSES = ("indexcol", "pushdown", "select-after")


def _reads_alone(t, fam, col):
    """does the consumer read column ``col`` as a single-column selection (directly, as a mask or as an operand)"""
    if fam == "getcol":
        return t.get("col") == col
    return t.get("by") == col or col in (t.get("c1"), t.get("c2")) or (fam == "filter" and t.get("col") == col and t["op"] != "filter-getcols")


def same_structure(a, b):
    """kind, column labels and order (Series: name) of two pandas objects"""
    import pandas as pd

    if isinstance(a, pd.DataFrame) or isinstance(b, pd.DataFrame):
        return isinstance(a, pd.DataFrame) and isinstance(b, pd.DataFrame) and list(a.columns) == list(b.columns)
    if isinstance(a, pd.Series) or isinstance(b, pd.Series):
        return isinstance(a, pd.Series) and isinstance(b, pd.Series) and (a.name == b.name or (pd.isna(a.name) and pd.isna(b.name)))
    return isinstance(a, pd.Index) == isinstance(b, pd.Index)


def consumer_klass(desc, tail, inner_ref):
    """label head of what only the program WITH its consumer shows; mechanisms recognised by an explicit predicate first
    (one mechanism = one head): * a Series.reset_index() read by a single column selection (the Series branch of
    ResetIndex._simplify_up rewrites it to reset_index(drop=True)): which column is read - the values (of a series without a
    name: column 0), a level of a MultiIndex, the column "index" / "level_0" / <name of the index>; * a column selection after
    a rolling aggregation of a frame."""
    import pandas as pd

    from vf.gen import c42_programs as Q

    t = tail or desc["tail"]
    fam = Q.TAIL_FAMILY[t["op"]]
    if fam == "reset-getcol" and isinstance(inner_ref, pd.Series):
        try:
            cols = list(inner_ref.reset_index().columns)
            col = cols[int(t["pick"] * len(cols)) % len(cols)]
            if col == cols[-1]:
                which = "values-of-unnamed-series" if inner_ref.name is None else "values"
            elif inner_ref.index.nlevels > 1:
                which = "level-of-multiindex"
            else:
                which = "index-column-called-%s" % (col if col in ("index", "level_0") else "like-the-index")
            return "%s:series.reset_index>getcol:%s" % (desc["class"], which)
        except Exception:  # noqa: BLE001
            pass
    if desc["class"] == "select-after":
        inner = desc["inner"]
        if inner["class"] == "window" and inner.get("op") == "rolling" and inner.get("target") == "frame":
            return "select-after:window:rolling:frame>column-selection"
    if desc["class"] == "pushdown" and desc["op"] == "explode" and _reads_alone(t, fam, "b"):
        return "pushdown:explode>exploded-column-read-alone"       # (directly or in a mask: it loses the index)
    if desc["class"] == "indexcol":
        moves = list(desc["moves"])
        while moves and (moves[-1]["op"] in ("rename_axis", "squeeze") or
                         moves[-1]["op"] == "reset_index" and moves[-1]["drop"] and moves[-1].get("on") == "frame"):
            moves.pop()     # (rename the new index / leave two columns as they are / number the rows again)
        last = moves[-1] if moves else {}
        if fam == "getcol" and last.get("op") == "reset_index" and last.get("on") == "series" and not last["drop"]:
            col = t.get("col")
            if col == last["new"]:
                which = "index-column-called-%s" % (col if col in ("index", "level_0") else "like-the-index")
            else:
                which = "values-of-unnamed-series" if last.get("unnamed_series") else "values"
            return "indexcol:series.reset_index>getcol:%s" % which
        feats = Q.indexcol_features(desc, t)
        nf = [f for f in feats if f.startswith("filter")]
        if nf and any("reset_index" in f for f in feats):
            # a filter (two filters) above reset_index: pushed below it while a predicate still reads the new index
            return "indexcol:reset_index+%s" % nf[0]
    return Q.consumer_head(desc, t)


def raises_label(desc, tail, exc, site):
    """label of a dask exception in a consumer-class program whose inner program computes: the structural features of the
    program and the exception TYPE (the innermost dask frame depends on the scheduler path, so it is not part of the label)"""
    from vf.gen import c42_programs as Q

    et = "TypeError" if isinstance(exc, TypeError) else type(exc).__name__        # (numpy's UFuncTypeError ...)
    k = desc["class"]
    t = tail or desc["tail"]
    head = consumer_klass(desc, t, None)
    if ":series.reset_index>getcol:" in head:
        # the single column read is not what the meta says (values instead of the index column): the consumer's own
        # operation (+ Timedelta, + "_s" ...) fails on the other dtype
        return "%s:raises:%s" % (head, et)
    if head == "pushdown:explode>exploded-column-read-alone":
        return "%s:raises:%s" % (head, et)
    if k == "indexcol":
        feats = Q.indexcol_features(desc, t)
        reset = any("reset_index" in f for f in feats)
        if reset and "level_0" in feats and et == "KeyError":
            # the column made from the index is "level_0" only while the frame has a column "index"
            return "indexcol:reset_index:new-column-called-level_0:raises:KeyError"
        nf = [f for f in feats if f.startswith("filter")]
        if reset and nf:
            # a filter (two filters) above reset_index: pushed below it while a predicate still reads the new index; with
            # ``relabel`` (add_prefix / add_suffix) or ``index-read`` (index.to_series / to_frame) below the reset_index the
            # filter goes on below an operation that builds or relabels the index it reads
            extra = "".join(f + "+" for f in ("relabel", "index-read") if f in feats)
            return "indexcol:%sreset_index+%s:raises:%s" % (extra, nf[0], et)
        return "indexcol:%s:raises:%s" % ("+".join(feats), et)
    if k == "select-after":
        inner = desc["inner"]
        if inner["class"] == "groupby-agg" and inner.get("sel") == "cols":
            # df.groupby(key)[[c1, c2]].agg()[...]: the selection is pushed into the frame, the column list of the groupby stays
            if et == "KeyError" and str(exc).strip("'\"").lstrip("-").isdigit() and (inner.get("kw") or {}).get("split_out"):
                # a different mechanism than the (repaired) 'Columns not found': the lowered graph of the split_out
                # aggregation refers to a partition number that the layer underneath does not produce
                return "select-after:groupby-agg:column-list-selection&split_out>consumer:raises:KeyError(partition-number)"
            return "select-after:groupby-agg:column-list-selection>consumer:raises:%s" % et
        return "select-after:%s:%s>%s:raises:%s" % (inner["class"], inner["form"], Q.TAIL_FAMILY[t["op"]], et)
    return "%s:raises:%s" % (Q.consumer_head(desc, t), et)
_RESET_TAILS = ("reset-getcol", "reset-getcols", "s-reset-getcol")


def count_consumer_program(ctx, desc, res, c):
    """observability of the consumer classes: per class, per move / operation kind, per consumer kind, per index variant,
    and whether ``simplify`` rewrote the expression at all (a rule fired)"""
    k = desc["class"]
    ctx.count({"indexcol": "indexcol_programs_checked", "pushdown": "pushdown_programs_checked",
               "select-after": "select_after_programs_checked"}[k])
    ctx.count("tail:" + desc["tail"]["op"])
    ctx.distinct("consumer_kinds", desc["tail"]["op"])
    if k == "indexcol":
        for mv in desc["moves"]:
            ctx.count("move:" + mv["op"])
        ix = desc["ix"]
        name = "unnamed" if ix["name"] is None else "named-index" if ix["name"] == "index" else \
            "named-like-column" if ix["name"] in ("a", "c") else "named"
        ctx.count("index:" + name)
        ctx.count("index-dtype:" + ix["dtype"])
        ctx.distinct("index_variants", [ix["dtype"], name, ix["order"], ix["colindex"]])
        if "(index-column)" in desc["form"]:
            ctx.count("consumer_reads_former_index_column")
        if "col" in desc["start"] and desc["moves"] and desc["moves"][0]["op"] == "reset_index" and not desc["moves"][0]["drop"]:
            ctx.count("series_reset_index_then_consumer")
        head = consumer_klass(desc, desc["tail"], None)
        if head.startswith("indexcol:series.reset_index>getcol:"):
            # the Series branch of ResetIndex._simplify_up: ONE column selection reads series.reset_index()
            ctx.count("series_reset_index_single_getcol:" + ("index-column" if "index-column" in head else "values"))
            if head.endswith("index-column-called-index"):
                ctx.count("series_reset_index_single_getcol_of_column_index")
    elif k == "pushdown":
        ctx.count("pushdown:" + desc["op"])
        ctx.distinct("pushdown_ops", desc["op"])
    else:
        ctx.count("select-after:" + desc["inner"]["class"])
    try:
        e = res.expr
        if e.simplify()._name != e._name:
            ctx.count("simplify_rewrote:" + k)
    except Exception:  # noqa: BLE001
        pass


def values_violation(desc, c, run, val, full_ref, ctx):
    """-> (how, (kind, message), resolved tail, inner reference) | None.  indexcol / pushdown: the computed value against pandas running the
    same program (row order not compared after set_index / an index shuffle, the index not compared once reset_index made
    it partition-local; dtypes are the meta monitor's business).  select-after: against pandas applying the same consumer
    to the COMPUTED inner result (row multisets) - the consumer must not change what the inner program yields."""
    from vf.gen import c42_programs as Q
    from vf.gen import frames as F

    k = desc["class"]
    pdf, ddf = c["pdf"], c["ddf"]
    if desc.get("novalues"):
        return None
    if k == "indexcol":
        ctx.count("values_compared_with_pandas")
        m = F.compare(val, full_ref, ordered=not desc["unordered"], check_dtype=False, check_index=not desc["local"])
        return ("vs-pandas", m, desc["tail"], None) if m else None
    if k == "pushdown":
        try:
            inner_ref = run(pdf, False, c["opdf"], upto="inner")
            tt = Q.resolve_tail(desc["tail"], inner_ref)
        except Exception:  # noqa: BLE001
            return None
        ctx.count("values_compared_with_pandas")
        m = F.compare(val, full_ref, ordered=not desc.get("unordered"), check_dtype=False, check_index=tt["op"] not in _RESET_TAILS)
        return ("vs-pandas", m, tt, inner_ref) if m else None
    try:
        vi = run(ddf, True, c["oddf"], upto="inner").compute(scheduler="sync")
        tt = Q.resolve_tail(desc["tail"], vi)
        exp = Q.apply_tail(tt, vi, False)
    except Exception:  # noqa: BLE001
        return None
    if tt["op"] == "s-label":
        return None       # series[label]: a scalar in pandas, a one-row selection in dask unless the labels are known statically
    ctx.count("values_compared_with_unconsumed_result")
    inner = desc["inner"]
    # (a merge on columns defines no index: dask numbers the rows of every output partition)
    # (... and after reset_index the index is a numbering per partition: documented)
    keep_index = tt["op"] not in _RESET_TAILS and not (inner["class"] == "merge" and inner["on"] != "index") and \
        not (inner["class"] == "shuffle" and inner.get("op") == "reset_index")
    m = F.compare(val, exp, ordered=False, check_dtype=False, check_index=keep_index)
    return ("vs-unconsumed", m, tt, vi) if m else None


def run_case(case, ctx):
    import pandas as pd

    from vf.core.ctx import CaseTimeout, through_shim

    with warnings.catch_warnings():
        warnings.simplefilter("ignore")
        if case["src"] == "c36":
            from vf.gen import c36_pipelines as P
            from vf.props import c36

            c = c36.build(case["cs"])
            desc = c["desc"]
            run = lambda frame, is_dask, other, upto=None: P.apply(desc, frame, is_dask, other=other, upto=upto, full_meta=True)  # noqa: E731
            klass = "c36"
            text = P.describe(desc)
            for k in desc["classes"]:
                ctx.op("c36:" + c36.family(k))
        else:
            from vf.gen import c42_programs as Q

            c = build_ops(case["cs"], case["klass"], case.get("k"))
            desc = c["desc"]
            run = lambda frame, is_dask, other, upto=None: Q.apply(desc, frame, is_dask, other=other, upto=upto)  # noqa: E731
            klass = "%s:%s" % (desc["class"], desc["form"])
            text = Q.describe(desc)
            ctx.op(klass if desc["class"] not in CONSUMER_CLASSES else desc["class"])
        pdf, ddf = c["pdf"], c["ddf"]
        ctx.sig = [text, c["kind"], c["pdesc"], c.get("odesc"), len(pdf), case["cs"] if len(pdf) else 0]
        if desc.get("need_known") and not ddf.known_divisions:
            return ctx.reject("program needs known divisions (documented)")
        if desc.get("need_unique") and not (pdf.index.is_unique and c["opdf"].index.is_unique):
            return ctx.reject("aligning operation on duplicate index labels (pandas pairs every duplicate with every duplicate)")
        try:
            full_ref = run(pdf, False, c["opdf"])
        except CaseTimeout:
            raise
        except Exception as e:  # noqa: BLE001
            return ctx.reject("%s: %s" % (type(e).__name__, str(e)[:60]))
        if case["src"] == "c36" and desc["uses_meta"] and hasattr(full_ref, "__len__") and len(full_ref) == 0:
            return ctx.reject("user function on empty data: pandas defines no result dtype for the declared meta")
        try:
            res = run(ddf, True, c["oddf"])
            val, parts = observe(res)
        except CaseTimeout:
            raise
        except NotImplementedError as e:
            return ctx.unsupported(str(e)[:80])
        except Exception as e:  # noqa: BLE001
            if through_shim(e):
                return ctx.envlimited("%s: %s" % (type(e).__name__, str(e)[:80]))
            if case["src"] == "ops" and desc["class"] in CONSUMER_CLASSES:
                # no other property runs these programs.  pandas accepts the program and dask computes it WITHOUT its
                # final consumer: the exception belongs to the consumer (a column selection, a filter ... and what the
                # optimizer makes of it) and is reported here
                with warnings.catch_warnings():
                    warnings.simplefilter("ignore")
                    try:
                        r2 = run(ddf, True, c["oddf"], upto="inner")
                        v2, p2 = observe(r2)
                        # (a wrong inner meta is found by the programs that compute; an inner result whose kind / columns
                        # differ from pandas - e.g. the known concat(join=) defect of C39 - is the owning property's)
                        inner_ok = check(r2, v2, p2) is None and same_structure(v2, run(pdf, False, c["opdf"], upto="inner"))
                    except CaseTimeout:
                        raise
                    except Exception:  # noqa: BLE001
                        inner_ok = False
                if inner_ok:
                    from vf.core.ctx import exc_label

                    try:
                        tt = Q.resolve_tail(desc["tail"], run(pdf, False, c["opdf"], upto="inner"))
                    except Exception:  # noqa: BLE001
                        tt = None
                    ctx.count("consumer_exceptions_reported")
                    return ctx.violation(raises_label(desc, tt, e, exc_label(e)), "%s: %s" % (type(e).__name__, str(e)[:300]),
                                         program=desc, tail=tt, index_kind=c["kind"], partitioning=c["pdesc"],
                                         second_frame_partitioning=c.get("odesc"), rows=len(pdf), case_seed=case["cs"],
                                         traceback="".join(__import__("traceback").format_exception(type(e), e, e.__traceback__))[-2500:])
            ctx.count("dask_raised_owned_by_other_property")
            return ctx.unsupported("dask raised %s (reported by the owning property)" % type(e).__name__)
        m = check(res, val, parts)
        if m is not None and m[0].startswith("meta-dtype("):
            # the same program in pandas on EMPTY inputs: what pandas infers without data
            try:
                o0 = c["opdf"].iloc[:0] if c.get("opdf") is not None else None
                empty_ref = run(pdf.iloc[:0], False, o0)
                m = check(res, val, parts, empty_ref, full_ref)
            except CaseTimeout:
                raise
            except Exception:  # noqa: BLE001
                empty_ref = None
        else:
            empty_ref = None
    ctx.count("meta_checked_results")
    ctx.count("meta_checked_partitions", len(parts or ()))
    ctx.count("empty_partitions_checked", sum(1 for p in (parts or ()) if hasattr(p, "__len__") and len(p) == 0))
    ctx.count("public_views_checked")
    ctx.count("c36_pipelines_checked" if case["src"] == "c36" else "ops_programs_checked")
    consumer = case["src"] == "ops" and desc["class"] in CONSUMER_CLASSES
    if consumer:
        count_consumer_program(ctx, desc, res, c)
    ctx.count({pd.DataFrame: "frame_results", pd.Series: "series_results"}.get(type(val), "index_results" if isinstance(val, pd.Index) else "scalar_results"))
    ctx.distinct("program_forms", klass if case["src"] == "ops" else desc["classes"])
    nparts = getattr(res, "npartitions", None)
    ctx.nontrivial = (nparts or 0) >= 2 or (nparts is None and ddf.npartitions >= 2) or \
        (not hasattr(res, "partitions") and ddf.npartitions >= 2)
    detail = {"program": desc if case["src"] == "ops" else desc["steps"], "index_kind": c["kind"], "partitioning": c["pdesc"],
              "second_frame_partitioning": c.get("odesc"), "rows": len(pdf), "case_seed": case["cs"],
              "meta": repr(getattr(res, "_meta", None))[:300]}
    if m is None and consumer:
        # the meta agrees: the VALUES of the consumer classes (pandas on the same program, or - select-after - the same
        # consumer applied by pandas to the computed un-consumed inner result)
        with warnings.catch_warnings():
            warnings.simplefilter("ignore")
            try:
                vm = values_violation(desc, c, run, val, full_ref, ctx)
            except CaseTimeout:
                raise
        if vm is not None:
            how, (vk, vmsg) = vm[0], vm[1]
            detail["tail"] = vm[2]
            return ctx.violation("%s:%s:%s" % (consumer_klass(desc, vm[2], vm[3]), how, vk), vmsg, **detail)
    if m is None:
        ctx.sample = {"program": text[:500], "index": c["kind"], "partitioning": c["pdesc"], "result_kind": type(val).__name__,
                      "result_npartitions": nparts, "meta": repr(getattr(res, "_meta", None))[:200]}
        return
    facet, msg = m
    label_desc = desc
    if consumer:
        # does the program WITHOUT its final consumer already disagree with its meta?  then the mechanism is the inner
        # operation's (for select-after: labelled exactly as the older class labels it), and the consumer only inherits it
        with warnings.catch_warnings():
            warnings.simplefilter("ignore")
            try:
                r2 = run(ddf, True, c["oddf"], upto="inner")
                v2, p2 = observe(r2)
                m2 = check(r2, v2, p2)
                if m2 is not None and m2[0].startswith("meta-dtype("):
                    try:
                        o0 = c["opdf"].iloc[:0] if c.get("opdf") is not None else None
                        m2 = check(r2, v2, p2, run(pdf.iloc[:0], False, o0, upto="inner"), run(pdf, False, c["opdf"], upto="inner"))
                    except CaseTimeout:
                        raise
                    except Exception:  # noqa: BLE001
                        pass
            except CaseTimeout:
                raise
            except Exception:  # noqa: BLE001
                m2 = None
        if m2 is not None:
            facet, msg = m2
            detail["disagrees_without_the_final_consumer"] = True
            if desc["class"] == "select-after":
                label_desc = desc["inner"]
                klass = "%s:%s" % (label_desc["class"], label_desc["form"])
            elif desc["class"] == "pushdown":
                klass = "pushdown:%s" % desc["op"]
            else:
                # the first move after which the meta disagrees names the mechanism
                k, before = len(desc["moves"]), None
                with warnings.catch_warnings():
                    warnings.simplefilter("ignore")
                    for j in range(0, len(desc["moves"])):
                        try:
                            r3 = run(ddf, True, c["oddf"], upto=j)
                            if j > 0:
                                v3, p3 = observe(r3)
                                m3 = check(r3, v3, p3)
                                if m3 is not None:
                                    k, (facet, msg) = j, m3
                                    break
                            before = r3
                        except CaseTimeout:
                            raise
                        except Exception:  # noqa: BLE001
                            break
                bk = {1: "series", 2: "frame"}.get(getattr(before, "ndim", None), "index") if before is not None else "object"
                klass = "indexcol:%s.%s:%s" % (bk, desc["moves"][k - 1]["op"], desc["form"].rsplit(":", 1)[1])
                detail["shortest_prefix"] = desc["moves"][:k]
        else:
            try:
                inner_ref = run(pdf, False, c["opdf"], upto="inner")
                detail["tail"] = Q.resolve_tail(desc["tail"], inner_ref)
            except Exception:  # noqa: BLE001
                inner_ref, detail["tail"] = None, None
            klass = consumer_klass(desc, detail["tail"], inner_ref)
    if case["src"] == "c36":
        # the SHORTEST prefix of the pipeline whose meta already disagrees names the operation class and the facet
        # (later steps only inherit the disagreement, possibly under another facet)
        from vf.props import c36

        k = len(desc["steps"])
        with warnings.catch_warnings():
            warnings.simplefilter("ignore")
            for j in range(1, len(desc["steps"])):
                try:
                    r2 = run(ddf, True, c["oddf"], upto=j)
                    v2, p2 = observe(r2)
                    m2 = check(r2, v2, p2)
                    if m2 is not None and m2[0].startswith("meta-dtype("):
                        try:
                            o0 = c["opdf"].iloc[:0] if c.get("opdf") is not None else None
                            m2 = check(r2, v2, p2, run(pdf.iloc[:0], False, o0, upto=j), run(pdf, False, c["opdf"], upto=j))
                        except CaseTimeout:
                            raise
                        except Exception:  # noqa: BLE001
                            pass       # pandas cannot run the prefix on empty input: keep the unrefined facet
                except CaseTimeout:
                    raise
                except Exception:  # noqa: BLE001
                    continue
                if m2 is not None:
                    k = j
                    facet, msg = m2
                    break
        fam = c36.family(desc["classes"][k - 1])
        head = c36.expr_heads(desc["steps"][k - 1]) if fam.split(":")[0] in ("series", "filter", "assign") else None
        klass = "c36:%s%s" % (fam, "[%s]" % head if head and fam.split(":")[0] == "series" else "")
        detail["shortest_prefix"] = desc["steps"][:k]
    if consumer and klass.startswith("indexcol:") and facet == "meta-name" and "meta name 0, computed None" in msg and \
            "unnamed-series" in Q.indexcol_features(desc, detail.get("tail")):
        # (the single reader appears only after a filter / projection was pushed below reset_index)
        klass = "indexcol:series.reset_index>getcol:values-of-unnamed-series"
    ctx.violation(mechanism_label(case, label_desc, klass, facet, detail.get("shortest_prefix")), msg, **detail)
