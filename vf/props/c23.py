"""C23 — chunk normalization and rechunking are exact.

Part 1 (contract).  shard_setup wraps the real dask.array.core.normalize_chunks and rebinds every
`from dask.array.core import normalize_chunks` copy in the loaded dask modules.  Every return of the
real function — whoever called it — is checked:
  * one entry per dimension of `shape`; each entry a non-empty tuple;
  * sizes that normalize_chunks chose itself (int / -1 / None / 'auto' / byte-string specs) are positive
    ints, or the single size 0 for a zero-length dimension; every dimension adds up to its shape entry
    (unknown = NaN sizes are skipped);
  * 'auto'/byte-string dimensions: product of the largest extents x itemsize <= limit whenever one
    element fits in the limit and the non-auto dimensions alone fit (DESIGN §9 calibration note).
A dedicated generator drives the function directly; borrowed workloads (from_array, ones/zeros/full,
rechunk, reshape, concatenate/stack, pad, tile, broadcast_to, arange...) let the contract see the
internal callers.  A spec is "invalid" by the harness's own rule (sizes not adding up to the shape,
wrong number of dimensions, inconsistent byte strings / limit, auto without dtype, 0 for a non-empty
axis): dask raising on an invalid spec is a rejected case; raising on a valid one is a violation.

Part 2 (rechunk).  x.rechunk(target, threshold, block_size_limit, balance, method) for random and
complete source/target chunkings: result.chunks == the target as normalised by the harness's own small
normaliser (ints, tuples, dicts, -1, None = keep; for 'auto'/byte strings only the sum rule — the limit
rule is the contract's business, it sees that very call), computed blocks have exactly the declared
shapes, values/dtype unchanged.  dask.array.rechunk.plan_rechunk is asked for the plan of every explicit
case, multi-stage plans are counted (`multistage_plans`).  method='p2p' needs `distributed` (not
installed): the ImportError naming distributed is the expected clear error (counted, unsupported); the
configured default must fall back to 'tasks'.

Calibration
* Explicit per-dimension tuples are the caller's own sizes and come back unchanged, including zero-width
  chunks next to positive ones (dask arrays legitimately carry them, e.g. after empty slices): for such
  dimensions only the sum and the pass-through are demanded (counter `explicit_dims_with_zero_chunks`).
* A byte-string spec together with a different `limit`, or two different byte strings, is a documented
  usage error (ValueError) -> invalid spec.
* The byte-limit rule is evaluated only when the non-auto dimensions alone already fit in the limit.
* balance=True deliberately changes the requested sizes ("dask choosing a different chunksize for you"):
  for balance=True only sums, block shapes and values are demanded.
* In a tuple/dict passed to rechunk, None / a missing axis mean "keep the current chunks" (in
  normalize_chunks they mean the full axis); the harness normaliser follows the rechunk docstring.

Parameter audit (part "rx", own random stream interleaved at fixed positions; counters rx_<family> with floors):
  unknown    a boolean mask along one axis makes its chunk sizes unknown (NaN); the other axes are rechunked by dict / tuple /
             list targets with None / missing / the NaN tuple on the unknown axis: chunks of the unknown axis unchanged, values and
             blocks (against the per-chunk mask counts) equal; plan_rechunk must return the single stage.  A target that
             changes the unknown axis is documented to raise ValueError ("Chunks must be unchanging along dimensions with
             missing values") -> counted `unknown_axis_change_refused`.
  big        axes of 300-1200 cells with chunks > 255 elements and irregular breakpoints (1-d, 2-d)
  nd4        4-d arrays with pairwise different lengths, thresholds / limits that give multi-stage plans
  chain      x.rechunk(a).rechunk(b)[.rechunk(c)]: every stage has its requested chunks and values when all stages are computed
             in one graph ("keep" entries refer to the previous stage)
  zerochunk  zero-width chunks inside a non-empty axis in the source and / or the explicit target (`explicit_dims_with_zero_chunks`)
  list       list targets with a None entry (None = keep that axis' chunks, on an axis that is split)
  floatbsl   block_size_limit given as a float; cfglimit: the limit given through config array.chunk-size instead of the keyword
  strdtype   dtypes U3 / S2 / object;  default: x.rechunk() without a chunks argument (= "auto")

Sibling facet (vf/mon/siblings.py): every case is also built a second time with ONE result-relevant parameter changed
(the same source rechunked to another target (values compared block by block: the block structure is the result)).
The two lazily built collections must not share output keys unless their stand-alone values are equal (label
``<op>:<param>-not-in-name:siblings-share-keys``); for a seeded ~15 % of the cases both are also computed in one graph and
compared with their stand-alone values (``<op>:<param>:differs-when-computed-with-sibling``).  Counters siblings_built /
siblings_computed_together / siblings_with_different_values have floors.
"""
from __future__ import annotations

import math
import numbers
import random
import sys
import threading
import warnings

import numpy as np

from ..gen import arrays as A
from ..mon import siblings as S
from ..mon.compare import compare_arrays, lazy_meta_mismatch

PROP = "C23"
RULE = ("parts: nc = direct normalize_chunks calls (shape incl. 0-d, length 0/1 and long axes; spec int, tuple, "
        "tuple of tuples, list, dict, -1/None, 'auto', byte strings, mixtures; dtype; limit int/float/str/None; "
        "previous_chunks); wl = borrowed array-construction workloads seen through the contract; rc = rechunk "
        "(source chunking x target spec x threshold x block_size_limit x balance x method/config). Complete part: all "
        "(source, target) chunking pairs of shapes (5,) and (3,2) (thorough: also (4,3)). non-trivial = an axis ends up / "
        "starts with >= 2 chunks or the spec has an auto/byte-string dimension; distinct = distinct case description "
        "without data seed.")
ASSUMPTIONS = ["NumPy holds the reference values", "dask.utils.parse_bytes turns '1KiB' into 1024",
               "sync scheduler (threads for a tenth of the rechunk cases)"]
BUDGET = {"quick": 60, "thorough": 540}
FLOORS = {"quick": {"evaluations": 5500, "distinct_nontrivial": 3500,
                    "counters": {"contract_evals": 13000, "contract_auto_limit_checked": 1000, "contract_internal_calls": 11000,
                                 "rechunk_compared": 1800, "multistage_plans": 250, "block_shapes_checked": 1800,
                                 "p2p_clear_error": 400},
                    "sets": {"plan_stage_counts": 2}, "max_skipped_fraction": 0.3},
          "thorough": {"evaluations": 60000, "distinct_nontrivial": 38000,
                       "counters": {"contract_evals": 140000, "contract_auto_limit_checked": 12000,
                                    "contract_internal_calls": 110000, "rechunk_compared": 18000, "multistage_plans": 2600,
                                    "block_shapes_checked": 17000, "p2p_clear_error": 4400},
                       "sets": {"plan_stage_counts": 2}, "max_skipped_fraction": 0.3}}
# sibling facet (vf/mon/siblings.py): ~45 % of the smallest count of the five quick seeds on the unchanged tree; thorough =
# quick floor x (thorough / quick stream size) x 0.6.  A run in which the facet never executed is INCONCLUSIVE.
FLOORS["quick"]["counters"].update({"siblings_built": 1700, "siblings_computed_together": 260, "siblings_with_different_values": 210})
FLOORS["thorough"]["counters"].update({"siblings_built": 9800, "siblings_computed_together": 1500, "siblings_with_different_values": 1200})
# parameter-audit families (part "rx"): ~40-45 % of the quick counts on the unchanged tree; thorough = quick x 8 (stream ratio 9.4)
_RXF = {"rx_compared": 600, "rx_blocks_checked": 600, "rx_unknown": 95, "unknown_axis_change_refused": 18, "rx_big": 36, "rx_nd4": 40,
        "rx_chain": 78, "rx_zerochunk": 78, "rx_list": 78, "rx_floatbsl": 40, "rx_cfglimit": 36, "rx_strdtype": 42, "rx_default": 43}
FLOORS["quick"]["counters"].update(_RXF)
FLOORS["thorough"]["counters"].update({k: v * 8 for k, v in _RXF.items()})
EXHAUSTIVE_SPACE = {"quick": "rechunk: all (source, target) chunking pairs of shape (5,) (16x16) and of shape (3,2) (8x8), method tasks",
                    "thorough": "rechunk: all (source, target) chunking pairs of shapes (5,), (3,2) and (4,3) (32x32), method tasks"}
CLAIM = ("Every call of the real normalize_chunks made in the check's processes (direct generator and internal callers of "
         "borrowed workloads) was checked at return against the stated postcondition (positive sizes or a single 0, sums equal "
         "the shape, auto chunks within the byte limit when one element and the fixed dimensions fit); every generated rechunk "
         "(complete small chunking-pair spaces, random specs, thresholds/block_size_limits giving multi-stage plans, balance, "
         "method tasks / default / p2p-unavailable) was compared with the harness-normalised target chunks, the computed block "
         "shapes and the NumPy values; held = no mismatch on the executions observed.")
LEVEL_NOTE = "NumPy and the harness's own spec normaliser are the reference; p2p rechunk cannot run (no distributed)"
TECHNIQUE = "runtime monitoring: return-value contract on normalize_chunks (all callers) + NumPy/own-normaliser differential on rechunk"
# Status when this module was handed over: the lead has committed fixes for the zero-length, string-limit and both
# balance labels in /repo (b93744a, 1f54286, 0b1e831, 7a2cf1f) and registered the tolerance label as a known finding;
# with those the quick run is HELD.  The entries stay here as the record of what each label means.
PENDING = {
    "normalize_chunks:auto&zero-length-dim:ZeroDivisionError":
        "'auto'/byte-string chunks with a zero-length dimension divide by the zero largest block (auto_chunks / _compute_multiplier)",
    "normalize_chunks:auto&previous_chunks:over-limit-within-tolerance":
        "with previous_chunks the auto chunks exceed `limit` by up to array.chunk-size-tolerance (1.25)",
    "normalize_chunks:byte-string&string-limit:ValueError@array/core.py:normalize_chunks":
        "chunks='128B' with limit='128B' raises 'Only one consistent value ... Used 128 != 128B' (limit compared unparsed)",
    "rechunk:0-d&balance:ValueError@array/rechunk.py:_compute_rechunk":
        "rechunk(balance=True) of a 0-d array raises ValueError (the early return is skipped under balance)",
    "rechunk:zero-length&balance:ZeroDivisionError@array/rechunk.py:_get_chunks":
        "rechunk(balance=True) with a zero-length axis (array not entirely empty) divides by zero in _balance_chunksizes",
}

# found by the parameter audit (family zerochunk); fix proposed in fixes_ready/C23_01_merge_to_number_zero_width_chunks.patch
for _op in ("plan_rechunk", "rechunk"):
    for _exc in ("AssertionError", "IndexError"):
        PENDING["%s:zero-width-chunk:%s@array/rechunk.py:merge_to_number" % (_op, _exc)] = (
            "an explicit target with zero-width chunks makes merge_to_number fail in the split pass of the planner "
            "(0 is used as the 'merged away' marker)")

BYTES = ["8B", "16 B", "64B", "100 B", "128B", "1KiB", "1kB", "4KiB"]
LIMITS = [None, None, 1, 8, 16, 64, 100, 1000, 1000.0, "128B", "1KiB", "64 B"]
NC_DTYPES = ["int8", "bool", "float32", "float64", "complex128", "int64", "datetime64[ns]", "S3", "U2"]

# ------------------------------------------------------------------------------------------------
# spec encoding (JSON friendly): int | None | str | {"t": [ints]} | {"T": [...]} | {"L": [...]} | {"D": [[axis, spec]...]}


def dec(s):
    if isinstance(s, dict):
        if "t" in s:
            return tuple(s["t"])
        if "T" in s:
            return tuple(dec(v) for v in s["T"])
        if "L" in s:
            return [dec(v) for v in s["L"]]
        if "D" in s:
            return {int(k): dec(v) for k, v in s["D"]}
    return s


def _parse(b):
    from dask.utils import parse_bytes

    return parse_bytes(b) if isinstance(b, str) else b


def _isnan(v):
    return isinstance(v, float) and math.isnan(v)


def perdim(chunks, shape):
    """Own reading of a chunk spec: list of per-dimension specs, or None when the layout is not per-dimension."""
    if chunks is None:
        return None
    if isinstance(chunks, np.ndarray):
        chunks = chunks.tolist()
    if isinstance(chunks, list):
        chunks = tuple(chunks)
    if isinstance(chunks, (numbers.Number, str)):
        return [chunks] * len(shape)
    if isinstance(chunks, dict):
        return [chunks.get(i) for i in range(len(shape))]
    chunks = tuple(chunks)
    if not chunks and shape and all(s == 0 for s in shape):
        return [(0,)] * len(shape)
    if len(shape) == 1 and len(chunks) > 1 and all(isinstance(c, (numbers.Number, str)) for c in chunks):
        return [chunks]
    if not shape:
        return []
    if len(chunks) != len(shape):
        return None
    return list(chunks)


def classify(chunks, shape, limit, dtype, prev):
    """(valid, why, per-dimension kinds) by the harness's own rule.  kinds: 'auto' | 'int' | 'full' | 'explicit'."""
    if chunks is None:
        return False, "chunks=None", None
    if shape is None:
        return True, "no shape", None
    try:
        shape = tuple(shape)
    except TypeError:
        return False, "shape not a sequence", None
    pd = perdim(chunks, shape)
    if pd is None:
        return False, "number of dimensions differs", None
    kinds, byts = [], set()
    for c, s in zip(pd, shape):
        if c is None or (isinstance(c, numbers.Integral) and not isinstance(c, bool) and c == -1):
            kinds.append("full")
        elif isinstance(c, str):
            kinds.append("auto")
            if c != "auto":
                try:
                    byts.add(_parse(c))
                except Exception:  # noqa: BLE001
                    return False, "unparseable byte string", None
        elif isinstance(c, bool):
            return False, "bool chunk size", None
        elif isinstance(c, numbers.Integral):
            if c < 1 and not (c == 0 and s == 0):
                return False, "chunk size < 1 for a non-empty axis", None
            kinds.append("int")
        elif isinstance(c, numbers.Number):
            if _isnan(c) or _isnan(s):
                kinds.append("explicit")
            else:
                return False, "non-integer chunk size", None
        elif isinstance(c, (tuple, list)):
            if len(c) == 0:
                return False, "empty tuple", None
            if not all(isinstance(v, numbers.Number) and not isinstance(v, bool) for v in c):
                return False, "non-numeric sizes", None
            if any(_isnan(v) for v in c) or _isnan(s):
                kinds.append("explicit")
                continue
            if any((not isinstance(v, numbers.Integral)) or v < 0 for v in c):
                return False, "negative or fractional explicit size", None
            if sum(c) != s:
                return False, "explicit sizes do not add up to the shape", None
            kinds.append("explicit")
        else:
            return False, "unknown spec element %s" % type(c).__name__, None
    if "auto" in kinds:
        if len(byts) > 1:
            return False, "two different byte strings", None
        if byts and limit is not None:
            try:
                if _parse(limit) != next(iter(byts)):
                    return False, "byte string and a different limit", None
            except Exception:  # noqa: BLE001
                return False, "unparseable limit", None
        if dtype is None:
            return False, "auto without dtype", None
        try:
            dt = np.dtype(dtype)
        except Exception:  # noqa: BLE001
            return False, "bad dtype", None
        if dt.itemsize == 0:
            return False, "auto with itemsize 0", None
        if any(_isnan(s) for s in shape) or any(isinstance(c, (tuple, list)) and any(_isnan(v) for v in c) for c in pd):
            return False, "auto with unknown sizes", None
        if prev is not None:
            try:
                prev = tuple(prev)
                if len(prev) != len(shape):
                    return False, "previous_chunks dimensionality", None
                for p, s in zip(prev, shape):
                    if isinstance(p, (tuple, list)):
                        if not p or any((not isinstance(v, numbers.Integral)) or v < 0 for v in p) or sum(p) != s:
                            return False, "previous_chunks do not match the shape", None
                    elif not (isinstance(p, numbers.Integral) and p >= 1):
                        return False, "previous_chunks entry", None
            except TypeError:
                return False, "previous_chunks not a sequence", None
    return True, "", kinds


# ------------------------------------------------------------------------------------------------
# the contract

_LOCK = threading.Lock()
_ST = {"installed": False, "real": None, "evals": 0, "auto": 0, "internal": 0, "direct_depth": 0, "invalid_raised": 0,
       "explicit_zero": 0, "noshape": 0, "rebound": 0, "failures": []}
_TLS = threading.local()


def _fail(label, message, args):
    with _LOCK:
        if len(_ST["failures"]) < 50:
            _ST["failures"].append((label, message, args))


def _argrepr(chunks, shape, limit, dtype, prev):
    def short(o):
        r = repr(o)
        return r if len(r) < 300 else r[:297] + "..."
    return {"chunks": short(chunks), "shape": short(shape), "limit": short(limit), "dtype": short(dtype), "previous_chunks": short(prev)}


def _feat(shape, kinds, prev, chunks=None, limit=None):
    f = []
    if isinstance(limit, str) and chunks is not None and _has_bytes_raw(chunks):
        return "byte-string&string-limit"
    if kinds and "auto" in kinds:
        f.append("auto")
    if shape is not None and any((not _isnan(s)) and s == 0 for s in shape) and kinds and "auto" in kinds:
        f.append("zero-length-dim")
    elif prev is not None and kinds and "auto" in kinds:
        f.append("previous_chunks")
    if not f:
        f.append("explicit-spec")
    return "&".join(f)


def _has_bytes_raw(chunks):
    if isinstance(chunks, str):
        return chunks != "auto"
    if isinstance(chunks, dict):
        return any(_has_bytes_raw(v) for v in chunks.values())
    if isinstance(chunks, (tuple, list)):
        return any(isinstance(v, str) and v != "auto" for v in chunks)
    return False


def check_post(out, chunks, shape, limit, dtype, prev, kinds):
    """The postcondition of the statement; returns a list of (label, message)."""
    bad = []
    feat = _feat(shape, kinds, prev)
    if not isinstance(out, tuple) or not all(isinstance(c, tuple) for c in out):
        return [("normalize_chunks:%s:not-a-tuple-of-tuples" % feat, "returned %r" % (out,))]
    if shape is None:
        with _LOCK:
            _ST["noshape"] += 1
        for c in out:
            if len(c) == 0:
                bad.append(("normalize_chunks:no-shape:empty-dimension-tuple", "returned %r" % (out,)))
        return bad
    shape = tuple(shape)
    if len(out) != len(shape):
        return [("normalize_chunks:%s:dimension-count" % feat, "returned %d dimensions for shape %r: %r" % (len(out), shape, out))]
    for ax, (c, s) in enumerate(zip(out, shape)):
        k = kinds[ax] if kinds else "explicit"
        if len(c) == 0:
            bad.append(("normalize_chunks:%s:empty-dimension-tuple" % feat, "axis %d of %r" % (ax, out)))
            continue
        if any(_isnan(v) for v in c) or _isnan(s):
            continue
        if not all(isinstance(v, numbers.Integral) and not isinstance(v, bool) for v in c):
            bad.append(("normalize_chunks:%s:non-integer-size" % feat, "axis %d of %r" % (ax, out)))
            continue
        if sum(c) != s:
            bad.append(("normalize_chunks:%s:sum-differs-from-shape" % feat, "axis %d: %r adds up to %d, shape entry %d" % (ax, c, sum(c), s)))
            continue
        if k == "explicit":
            if any(v < 0 for v in c):
                bad.append(("normalize_chunks:%s:negative-size" % feat, "axis %d of %r" % (ax, out)))
            elif any(v == 0 for v in c) and c != (0,):
                with _LOCK:
                    _ST["explicit_zero"] += 1
            continue
        if s == 0:
            if c != (0,):
                bad.append(("normalize_chunks:%s&kind=%s:empty-axis-not-single-zero" % (feat, k), "axis %d: %r" % (ax, c)))
        elif any(v <= 0 for v in c):
            bad.append(("normalize_chunks:%s&kind=%s:non-positive-size" % (feat, k), "axis %d: %r for length %d" % (ax, c, s)))
    if bad or not kinds or "auto" not in kinds:
        return bad
    # ---- byte limit of the automatic dimensions
    from dask import config

    lim = limit
    pd = perdim(chunks, shape)
    for c in pd:
        if isinstance(c, str) and c != "auto":
            lim = _parse(c)
    if lim is None:
        lim = config.get("array.chunk-size")
    lim = max(1, _parse(lim))
    isz = np.dtype(dtype).itemsize
    fixed = math.prod(max(out[i]) for i in range(len(shape)) if kinds[i] != "auto")
    if isz <= lim and fixed * isz <= lim:
        with _LOCK:
            _ST["auto"] += 1
        big = math.prod(max(c) for c in out) * isz
        if big > lim:
            if prev is not None:
                tol = float(config.get("array.chunk-size-tolerance"))
                sym = "over-limit-within-tolerance" if big <= lim * tol else "over-limit-beyond-tolerance"
                lab = "normalize_chunks:auto&previous_chunks:" + sym
            else:
                lab = "normalize_chunks:auto&no-previous_chunks:over-limit"
            bad.append((lab, "largest block %d bytes > limit %d: %r" % (big, lim, out)))
    return bad


def _make_wrapper(real):
    def normalize_chunks(chunks, shape=None, limit=None, dtype=None, previous_chunks=None):
        direct = getattr(_TLS, "direct", False)
        _TLS.direct = False          # nested calls made by dask itself count as internal
        try:
            valid, why, kinds = classify(chunks, shape, limit, dtype, previous_chunks)
        except Exception as e:  # noqa: BLE001  (never let the monitor break the program under test)
            valid, why, kinds = True, "classifier failed: %r" % (e,), None
        try:
            out = real(chunks, shape=shape, limit=limit, dtype=dtype, previous_chunks=previous_chunks)
        except NotImplementedError:
            raise
        except Exception as e:  # noqa: BLE001
            if getattr(e, "_c23_seen", False):
                raise
            try:
                e._c23_seen = True
                e._c23_valid = valid
            except Exception:  # noqa: BLE001
                pass
            if valid:
                from ..core.ctx import exc_label

                feat = _feat(shape, kinds, previous_chunks, chunks, limit)
                if isinstance(e, ZeroDivisionError) and "zero-length-dim" in feat:
                    lab = "normalize_chunks:auto&zero-length-dim:ZeroDivisionError"
                else:
                    lab = "normalize_chunks:%s:%s" % (feat, exc_label(e))
                _fail(lab, "%s: %s" % (type(e).__name__, e), _argrepr(chunks, shape, limit, dtype, previous_chunks))
            else:
                with _LOCK:
                    _ST["invalid_raised"] += 1
            raise
        with _LOCK:
            _ST["evals"] += 1
            if not direct:
                _ST["internal"] += 1
        try:
            bad = check_post(out, chunks, shape, limit, dtype, previous_chunks, kinds if valid else None)
        except Exception as e:  # noqa: BLE001
            bad = [("harness:contract-evaluation-failed", repr(e))]
        for lab, msg in bad:
            _fail(lab, msg, _argrepr(chunks, shape, limit, dtype, previous_chunks))
        return out

    normalize_chunks.__wrapped__ = real
    normalize_chunks.__doc__ = real.__doc__
    return normalize_chunks


def shard_setup(tier, seed):
    import dask.array  # noqa: F401  (load every module that copies the name)
    import dask.array.core as core
    import dask.array.rechunk  # noqa: F401
    import dask.array.reshape  # noqa: F401
    import dask.array.creation  # noqa: F401
    import dask.array.wrap  # noqa: F401
    import dask.array.random  # noqa: F401
    import dask.array.overlap  # noqa: F401
    import dask.array.routines  # noqa: F401
    import dask.array.slicing  # noqa: F401
    import dask.array.gufunc  # noqa: F401
    import dask.array.linalg  # noqa: F401

    if _ST["installed"]:
        return
    real = core.normalize_chunks
    wrapper = _make_wrapper(real)
    n = 0
    for name, mod in list(sys.modules.items()):
        if mod is None or not (name == "dask" or name.startswith("dask.")):
            continue
        for attr, val in list(vars(mod).items()):
            if val is real:
                setattr(mod, attr, wrapper)
                n += 1
    _ST.update(installed=True, real=real, rebound=n)


def shard_finish():
    return {"contract_modules_rebound": _ST["rebound"], "contract_invalid_spec_raised": _ST["invalid_raised"],
            "explicit_dims_with_zero_chunks": _ST["explicit_zero"], "contract_calls_without_shape": _ST["noshape"]}


class _Watch:
    """Per-case window on the contract counters; turns recorded failures into violations."""

    def __init__(self, ctx):
        self.ctx = ctx

    def __enter__(self):
        with _LOCK:
            self.e0, self.a0, self.i0 = _ST["evals"], _ST["auto"], _ST["internal"]
            _ST["failures"] = []
        return self

    def failed(self):
        with _LOCK:
            return bool(_ST["failures"])

    def __exit__(self, *exc):
        with _LOCK:
            fails, _ST["failures"] = _ST["failures"], []
            de, da_, di = _ST["evals"] - self.e0, _ST["auto"] - self.a0, _ST["internal"] - self.i0
        self.ctx.count("contract_evals", de)
        self.ctx.count("contract_auto_limit_checked", da_)
        self.ctx.count("contract_internal_calls", di)
        seen = set()
        for lab, msg, args in fails:
            if lab in seen:
                continue
            seen.add(lab)
            self.ctx.violation(lab, msg, call=args)
        return False


# ------------------------------------------------------------------------------------------------
# generators


def _enc_comp(c):
    return {"t": list(c)}


def _dim_spec(rng, n, allow_auto=True):
    k = rng.choice(("int", "int", "full", "none", "explicit", "explicit", "auto", "bytes") if allow_auto
                   else ("int", "int", "full", "none", "explicit", "explicit"))
    if k == "int":
        return rng.choice((1, 2, 3, max(1, n // 2), max(1, n), n + 2, rng.randint(1, max(1, n))))
    if k == "full":
        return -1
    if k == "none":
        return None
    if k == "explicit":
        return _enc_comp(A.rand_comp(rng, n) if n <= 60 else _long_comp(rng, n))
    if k == "auto":
        return "auto"
    return rng.choice(BYTES)


def _long_comp(rng, n):
    k = rng.randint(1, 8)
    cuts = sorted(rng.sample(range(1, n), min(k, n - 1)))
    b = [0] + cuts + [n]
    return tuple(y - x for x, y in zip(b, b[1:]))


def _nc_shape(rng):
    u = rng.random()
    if u < 0.05:
        return ()
    nd = rng.choice((1, 1, 2, 2, 3, 4))
    pool = [0, 1, 1, 2, 3, 5, 8, 13, 40, 100, 1000, 4099] if u < 0.6 else [0, 1, 2, 3, 4, 5, 6, 7, 9]
    return tuple(rng.choice(pool) for _ in range(nd))


def _nc_case(rng):
    shape = _nc_shape(rng)
    nd = len(shape)
    kind = rng.choice(("int", "neg1", "auto", "bytes", "tuple", "tuple", "tuple", "list", "dict", "dict", "explicit", "flat1d",
                       "invalid"))
    if kind == "int":
        spec = rng.choice((1, 2, 3, 5, 7, 64, 5000))
    elif kind == "neg1":
        spec = -1
    elif kind == "auto":
        spec = "auto"
    elif kind == "bytes":
        spec = rng.choice(BYTES)
    elif kind in ("tuple", "list"):
        one = rng.choice(BYTES)
        dims = [_dim_spec(rng, n) for n in shape]
        dims = [one if isinstance(d, str) and d != "auto" and rng.random() < 0.8 else d for d in dims]
        spec = {"T" if kind == "tuple" else "L": dims}
    elif kind == "dict":
        spec = {"D": [[i, _dim_spec(rng, n)] for i, n in enumerate(shape) if rng.random() < 0.65]}
    elif kind == "explicit":
        spec = {"T": [_enc_comp(A.rand_comp(rng, n) if n <= 60 else _long_comp(rng, n)) for n in shape]}
    elif kind == "flat1d":
        shape = (rng.choice((2, 3, 5, 8, 13)),)
        spec = {"T": list(A.rand_comp(rng, shape[0], "irregular"))}
    else:
        bad = rng.choice(("sum", "ndim", "twobytes", "empty"))
        dims = [_dim_spec(rng, n) for n in shape]
        if bad == "sum" and nd:
            a = rng.randrange(nd)
            dims[a] = _enc_comp(tuple(A.rand_comp(rng, min(shape[a], 30))) + (rng.randint(1, 3),))
        elif bad == "ndim" and nd:
            dims = dims + [2] if rng.random() < 0.5 or nd == 1 else dims[:-1]
            if len(dims) > 1 and len(shape) == 1:
                dims[0] = _enc_comp((shape[0],))   # so that it is not read as a flat 1-d spec
        elif bad == "twobytes" and nd >= 2:
            dims[0], dims[1] = "64B", "1KiB"
        elif nd:
            dims[rng.randrange(nd)] = _enc_comp(())
        spec = {"T": dims}
    has_auto = _has_str(spec)
    dtype = rng.choice(NC_DTYPES) if has_auto or rng.random() < 0.7 else None
    limit = rng.choice(LIMITS)
    if _has_bytes(spec) and rng.random() < 0.85:
        limit = None
    prev = None
    if rng.random() < (0.45 if has_auto else 0.1):
        prev = [list(A.rand_comp(rng, n) if n <= 60 else _long_comp(rng, n)) for n in shape]
        if rng.random() < 0.15:
            prev = [p[0] if len(set(p)) == 1 and p[0] >= 1 else p for p in prev]
    return {"part": "nc", "shape": list(shape), "spec": spec, "dtype": dtype, "limit": limit, "prev": prev, "kind": kind}


def _has_str(spec):
    if isinstance(spec, str):
        return True
    if isinstance(spec, dict):
        for key in ("T", "L"):
            if key in spec:
                return any(_has_str(v) for v in spec[key])
        if "D" in spec:
            return any(_has_str(v) for _, v in spec["D"])
    return False


def _has_bytes(spec):
    if isinstance(spec, str):
        return spec != "auto"
    if isinstance(spec, dict):
        for key in ("T", "L"):
            if key in spec:
                return any(_has_bytes(v) for v in spec[key])
        if "D" in spec:
            return any(_has_bytes(v) for _, v in spec["D"])
    return False


RC_DTYPES = ["int64", "float64", "int8", "float32", "complex128", "bool", "datetime64[ns]"]


def _rc_target(rng, shape, src):
    nd = len(shape)
    kind = rng.choice(("explicit", "explicit", "explicit", "int", "tuple", "tuple", "dict", "dict", "auto", "neg1", "bytes"))
    if kind == "explicit":
        return {"T": [_enc_comp(A.rand_comp(rng, n)) for n in shape]}
    if kind == "int":
        return rng.randint(1, 7)
    if kind == "neg1":
        return -1
    if kind == "auto":
        return "auto"
    if kind == "bytes":
        return rng.choice(BYTES)
    if kind == "tuple":
        one = rng.choice(BYTES)
        dims = [_dim_spec(rng, n) for n in shape]
        return {"T": [one if isinstance(d, str) and d != "auto" else d for d in dims]}
    one = rng.choice(BYTES)
    items = []
    for i, n in enumerate(shape):
        if rng.random() < 0.6:
            d = _dim_spec(rng, n)
            items.append([i - nd if rng.random() < 0.25 else i, one if isinstance(d, str) and d != "auto" else d])
    return {"D": items}


def _rc_random(rng):
    flav = rng.choice(("plain", "plain", "cross", "cross", "zero"))
    if flav == "cross":
        # many-thin x few-fat chunkings exchanged between axes: the shape of problem that needs intermediate stages
        nd = rng.choice((2, 2, 3))
        shape = tuple(rng.choice((4, 6, 8, 9, 12)) for _ in range(nd))
        a = rng.randrange(nd)
        src, tgt = [], []
        for i, n in enumerate(shape):
            thin = A.rand_comp(rng, n, rng.choice(("ones", "ones", "regular", "irregular")))
            fat = A.rand_comp(rng, n, rng.choice(("one", "one", "two")))
            s, t = (thin, fat) if (i == a) else (fat, thin)
            if rng.random() < 0.15:
                s, t = t, s
            src.append(s)
            tgt.append(t)
        target = {"T": [_enc_comp(t) for t in tgt]}
        if rng.random() < 0.2:
            target = {"D": [[i, _enc_comp(t)] for i, t in enumerate(tgt)]}
        thr = rng.choice((None, None, 1, 2, 0.5, 3, 1000))
        bsl = rng.choice((None, None, 8, 16, 64, 256, 1024, "64B"))
    else:
        shape = A.rand_shape(rng, maxnd=3, maxlen=9, minnd=0 if flav == "plain" and rng.random() < 0.3 else 1, allow_zero=True)
        if flav == "zero" and shape:
            shape = list(shape)
            shape[rng.randrange(len(shape))] = 0
            shape = tuple(shape)
        src = A.rand_chunks(rng, shape)
        target = _rc_target(rng, shape, src)
        thr = rng.choice((None, None, None, 1, 2, 0.5, 1000))
        bsl = rng.choice((None, None, None, 8, 64, 256, "1KiB"))
        if _has_bytes(target):
            bsl = None
    method = rng.choice((None, None, None, "tasks", "tasks", "p2p"))
    cfg = rng.choice((None, None, None, "tasks", "p2p")) if method is None else None
    return {"part": "rc", "shape": list(shape), "src": [list(c) for c in src], "tgt": target, "threshold": thr, "bsl": bsl,
            "balance": rng.random() < 0.12, "method": method, "cfg": cfg, "dtype": rng.choice(RC_DTYPES),
            "seed": rng.randrange(2 ** 31), "threads": rng.random() < 0.1, "api": rng.choice(("method", "method", "function")),
            "flav": flav}


# ------------------------------------------------------------------------------------------------
# parameter-audit families (part "rx"): input classes the random rechunk part above never produced.  They come from
# their OWN random stream and are interleaved at fixed positions, so the older stream is unchanged.
RX_FLAVS = ("unknown", "unknown", "unknown", "big", "nd4", "chain", "chain", "zerochunk", "zerochunk",
            "list", "list", "floatbsl", "cfglimit", "strdtype", "default")
RX_FEATURE = {"unknown": "unknown-chunks", "big": "chunk>255", "nd4": "4-d", "chain": "chained", "zerochunk": "zero-width-chunk",
              "list": "list-spec", "floatbsl": "float-limit", "cfglimit": "config-limit", "strdtype": "dtype=str|object",
              "default": "no-chunks-argument"}


def _with_zero_chunks(rng, comp):
    c = list(comp)
    for _ in range(rng.randint(1, 2)):
        c.insert(rng.randint(0, len(c)), 0)
    return tuple(c)


def _known_dim(rng, n):
    while True:
        d = _dim_spec(rng, n, allow_auto=False)
        if d is not None:
            return d


def _rx_case(rng):
    flav = rng.choice(RX_FLAVS)
    case = {"part": "rx", "flav": flav, "seed": rng.randrange(2 ** 31), "dtype": rng.choice(("int64", "float64", "int8")),
            "threshold": rng.choice((None, None, 1, 2, 0.5)), "bsl": rng.choice((None, None, 8, 64, 256)),
            "method": rng.choice((None, "tasks")), "api": rng.choice(("method", "function")), "cfgsize": None}
    if flav == "unknown":
        nd = rng.choice((1, 2, 2, 3))
        shape = tuple(rng.randint(2, 8) for _ in range(nd))
        uax = rng.randrange(nd)
        src = A.rand_chunks(rng, shape)
        form = rng.choice(("dict", "dict", "tuple", "list", "explicit", "refuse"))
        if form == "dict":
            items = [[i - nd if rng.random() < 0.2 else i, _known_dim(rng, n)] for i, n in enumerate(shape)
                     if i != uax and rng.random() < 0.8]
            if rng.random() < 0.3:
                items.append([uax, None])
            tgt = {"D": items}
        elif form in ("tuple", "list"):
            tgt = {"T" if form == "tuple" else "L": [None if i == uax else _dim_spec(rng, n, allow_auto=False)
                                                     for i, n in enumerate(shape)]}
        else:
            tgt = {"T": [("keepnan" if form == "explicit" else _enc_comp(src[i])) if i == uax else _enc_comp(A.rand_comp(rng, n))
                         for i, n in enumerate(shape)]}
        case.update(shape=list(shape), src=[list(c) for c in src], tgt=tgt, uax=uax, form=form)
    elif flav == "big":
        n = rng.choice((300, 511, 600, 777, 1024, 1200))
        shape, long_ax = (n,), 0
        if rng.random() < 0.5:
            m = rng.randint(1, 12)
            long_ax = rng.randrange(2)
            shape = (n, m) if long_ax == 0 else (m, n)
        src, tgt = [], []
        for i, k in enumerate(shape):
            if i == long_ax:
                c = rng.choice((256, 300, 257, 1000, 97))
                src.append(_long_comp(rng, k) if rng.random() < 0.6 else tuple([c] * (k // c) + ([k % c] if k % c else [])))
                u = rng.random()
                tgt.append(_enc_comp(_long_comp(rng, k)) if u < 0.6 else rng.choice((7 if len(shape) == 1 else 60, 100, 256, 257, 400, -1)))
            else:
                src.append(A.rand_comp(rng, k, rng.choice(("one", "two", "regular", "irregular"))))
                tgt.append(_enc_comp(A.rand_comp(rng, k, rng.choice(("one", "two", "regular", "irregular")))))
        case.update(shape=list(shape), src=[list(c) for c in src], tgt={"T": tgt})
    elif flav == "nd4":
        shape = tuple(rng.sample((1, 2, 3, 4, 5), 4))
        src, t = A.rand_chunks(rng, shape), A.rand_chunks(rng, shape)
        tgt = {"T": [_enc_comp(c) for c in t]} if rng.random() < 0.7 else {"D": [[i, _enc_comp(c)] for i, c in enumerate(t) if rng.random() < 0.7]}
        case.update(shape=list(shape), src=[list(c) for c in src], tgt=tgt, threshold=rng.choice((None, 1, 1, 2, 0.5)),
                    bsl=rng.choice((None, 8, 16, 64, 256)))
    elif flav == "chain":
        shape = A.rand_shape(rng, maxnd=3, maxlen=9, minnd=1, allow_zero=False)
        src = A.rand_chunks(rng, shape)
        tg = []
        for _ in range(rng.choice((2, 2, 3))):
            u = rng.random()
            if u < 0.5:
                tg.append({"T": [_enc_comp(A.rand_comp(rng, n)) for n in shape]})
            elif u < 0.75:
                tg.append({"T": [_dim_spec(rng, n, allow_auto=False) for n in shape]})
            else:
                tg.append({"D": [[i, _dim_spec(rng, n, allow_auto=False)] for i, n in enumerate(shape) if rng.random() < 0.6]})
        case.update(shape=list(shape), src=[list(c) for c in src], tgt=tg[-1], chain=tg[:-1])
    elif flav == "zerochunk":
        shape = A.rand_shape(rng, maxnd=2, maxlen=8, minnd=1, allow_zero=False)
        src, t = list(A.rand_chunks(rng, shape)), list(A.rand_chunks(rng, shape))
        if rng.random() < 0.5:
            # thin x fat chunkings exchanged between two axes under a small limit: plans with a split pass
            shape = tuple(rng.choice((4, 5, 6, 8, 9)) for _ in range(2))
            a = rng.randrange(2)
            src = [A.rand_comp(rng, n, "ones" if i == a else rng.choice(("one", "two"))) for i, n in enumerate(shape)]
            t = [A.rand_comp(rng, n, rng.choice(("one", "two")) if i == a else rng.choice(("ones", "irregular", "regular")))
                 for i, n in enumerate(shape)]
            case.update(threshold=rng.choice((1, 1, 0.5, 2)), bsl=rng.choice((8, 16, 64)), dtype="float64")
        where = rng.choice(("src", "tgt", "both"))
        for i in range(len(shape)):
            if where in ("src", "both") and (rng.random() < 0.7 or i == 0):
                src[i] = _with_zero_chunks(rng, src[i])
            if where in ("tgt", "both") and (rng.random() < 0.7 or i == 0):
                t[i] = _with_zero_chunks(rng, t[i])
        case.update(shape=list(shape), src=[list(c) for c in src], tgt={"T": [_enc_comp(c) for c in t]}, where=where)
    else:
        shape = A.rand_shape(rng, maxnd=3, maxlen=9, minnd=1, allow_zero=False)
        src = list(A.rand_chunks(rng, shape))
        tgt = {"T": [_enc_comp(A.rand_comp(rng, n)) for n in shape]}
        if flav == "list":
            dims = [_dim_spec(rng, n, allow_auto=False) for n in shape]
            a = rng.randrange(len(shape))
            dims[a] = None                     # None inside a list = keep that axis' chunks ...
            if shape[a] >= 2:                  # ... which must be distinguishable from "the whole axis"
                src[a] = A.rand_comp(rng, shape[a], rng.choice(("two", "ones", "irregular")))
            tgt = {"L": dims}
        elif flav == "floatbsl":
            case["bsl"] = rng.choice((8.0, 64.0, 256.0, 1e3, 100.5))
            if rng.random() < 0.5:
                tgt = rng.choice(("auto", {"D": [[rng.randrange(len(shape)), "auto"]]}))
        elif flav == "cfglimit":
            case["bsl"] = None
            case["cfgsize"] = rng.choice(("64B", "256 B", 128, "1KiB", 16))
            if rng.random() < 0.5:
                tgt = rng.choice(("auto", {"D": [[rng.randrange(len(shape)), "auto"]]}))
        elif flav == "strdtype":
            case["dtype"] = rng.choice(("U3", "S2", "object"))
            if rng.random() < 0.3:
                tgt = rng.randint(1, 4)
        else:
            tgt = "auto"
            case["api"] = "default"
            case["bsl"] = rng.choice((None, 16, 64, 256))
        case.update(shape=list(shape), src=[list(c) for c in src], tgt=tgt)
    return case


WL_OPS = ["from_array", "creation", "rechunk", "reshape", "concatenate", "stack", "pad", "tile", "broadcast_to", "arange",
          "map_blocks", "random", "overlap", "asarray_like"]


def cases(tier, seed):
    rng = random.Random(seed * 7477 + 23)
    spaces = [(5,), (3, 2)] + ([(4, 3)] if tier == "thorough" else [])
    for shape in spaces:
        allc = A.all_chunkings(shape)
        for s in allc:
            for t in allc:
                yield {"space": "exhaustive", "part": "rc", "shape": list(shape), "src": [list(c) for c in s],
                       "tgt": {"T": [_enc_comp(c) for c in t]}, "threshold": None, "bsl": None, "balance": False,
                       "method": "tasks", "cfg": None, "dtype": "int64", "seed": 3, "threads": False, "api": "method",
                       "flav": "exhaustive"}
    n_nc, n_rc, n_wl = (6000, 5000, 900) if tier == "quick" else (80000, 50000, 10000)
    total = n_nc + n_rc + n_wl
    # interleave the three parts so that a truncated run still saw all of them
    left = {"nc": n_nc, "rc": n_rc, "wl": n_wl}
    rx = random.Random(seed * 9109 + 2323)
    every = 8 if tier == "quick" else 10
    for k in range(total):
        if k % every == every - 1:
            yield _rx_case(rx)
        r = rng.randrange(sum(left.values()))
        part = "nc" if r < left["nc"] else ("rc" if r < left["nc"] + left["rc"] else "wl")
        left[part] -= 1
        if part == "nc":
            yield _nc_case(rng)
        elif part == "rc":
            yield _rc_random(rng)
        else:
            shape = A.rand_shape(rng, maxnd=3, maxlen=9, minnd=1)
            yield {"part": "wl", "op": rng.choice(WL_OPS), "shape": list(shape), "chunks": [list(c) for c in A.rand_chunks(rng, shape)],
                   "spec": rng.choice(("auto", "explicit", "int", "bytes", "neg1", "dictauto")), "dtype": rng.choice(RC_DTYPES[:5]),
                   "seed": rng.randrange(2 ** 31)}


# ------------------------------------------------------------------------------------------------
# run


def run_case(case, ctx):
    if not _ST["installed"]:
        shard_setup(ctx.tier, ctx.seed)
    part = case["part"]
    with warnings.catch_warnings():
        warnings.simplefilter("ignore")
        if part == "nc":
            _run_nc(case, ctx)
        elif part == "rc":
            _run_rc(case, ctx)
        elif part == "rx":
            _run_rx(case, ctx)
        else:
            _run_wl(case, ctx)


def _run_nc(case, ctx):
    import dask.array.core as core

    shape = tuple(case["shape"])
    spec = dec(case["spec"])
    dtype, limit = case["dtype"], case["limit"]
    prev = None if case["prev"] is None else tuple(tuple(p) if isinstance(p, list) else p for p in case["prev"])
    sig = dict(case)
    ctx.sig = sig
    ctx.op("nc:" + case["kind"])
    valid, why, kinds = classify(spec, shape, limit, dtype, prev)
    out = None
    with _Watch(ctx):
        try:
            _TLS.direct = True
            out = core.normalize_chunks(spec, shape=shape, limit=limit, dtype=dtype, previous_chunks=prev)
        except NotImplementedError as e:
            ctx.unsupported(str(e))
        except Exception as e:  # noqa: BLE001
            if not valid:
                ctx.count("invalid_spec_rejected")
                ctx.reject("invalid spec (%s): %s" % (why, type(e).__name__))
            elif not getattr(e, "_c23_seen", False):
                ctx.exception(e, prefix="normalize_chunks:" + _feat(shape, kinds, prev))
        finally:
            _TLS.direct = False
    if out is None:
        return
    if not valid:
        # the statement promises nothing for specs outside its domain; the returned value was checked anyway
        ctx.count("invalid_spec_accepted")
    ctx.count("nc_returned")
    ctx.nontrivial = bool(kinds and "auto" in kinds) or any(len(c) >= 2 for c in out if isinstance(c, tuple))
    if kinds:
        for k in set(kinds):
            ctx.op("dimkind:" + k)
    ctx.sample = {"spec": repr(spec)[:80], "shape": list(shape), "limit": limit, "dtype": dtype, "out": repr(out)[:120]}


def _expected_rechunk(tgt, shape, src):
    """Harness normaliser for a rechunk target: per dimension an explicit tuple, or None for auto/byte-string dims."""
    nd = len(shape)
    if isinstance(tgt, dict):
        full = {}
        for k, v in tgt.items():
            full[k + nd if k < 0 else k] = v
        pd = [full.get(i, "keep") if full.get(i, "keep") is not None else "keep" for i in range(nd)]
    elif isinstance(tgt, (tuple, list)):
        tgt = tuple(tgt)
        if nd == 1 and len(tgt) > 1 and all(isinstance(c, (int, str)) for c in tgt):
            pd = [tgt]
        else:
            pd = ["keep" if c is None else c for c in tgt]
    else:
        pd = [tgt] * nd
    out = []
    for c, n, s in zip(pd, shape, src):
        if isinstance(c, str) and c == "keep":
            out.append(tuple(s))
        elif isinstance(c, str):
            out.append(None)
        elif isinstance(c, tuple):
            out.append(tuple(c))
        elif c == -1:
            out.append((n,))
        else:
            out.append(tuple([c] * (n // c) + ([n % c] if n % c else [])) if n else (0,))
    return out


def _run_rc(case, ctx):
    import dask
    import dask.array as da
    from dask.array.rechunk import plan_rechunk

    shape = tuple(case["shape"])
    src = A.chunks_of_desc(case["src"])
    tgt = dec(case["tgt"])
    x = A.rand_data(case["seed"], shape, case["dtype"])
    thr, bsl, bal, method, cfg = case["threshold"], case["bsl"], case["balance"], case["method"], case["cfg"]
    ctx.sig = {k: v for k, v in case.items() if k != "seed"}
    ctx.op("rc:" + case["flav"])
    exp = _expected_rechunk(tgt, shape, src)
    explicit = all(e is not None for e in exp)
    ctx.nontrivial = A.has_split(src) or any(e is None or len(e) >= 2 for e in exp)
    zero = 0 in shape
    feat = "&".join([f for f, on in (("zero-length", zero), ("0-d", not shape), ("balance", bal), ("auto", not explicit)) if on]) or "plain"
    stages = None
    with _Watch(ctx) as w:
        try:
            dx = da.from_array(x, chunks=src)
        except Exception as e:  # noqa: BLE001
            ctx.exception(e, prefix="rechunk:from_array")
            return
        if explicit and not bal:
            try:
                plan = plan_rechunk(dx.chunks, tuple(exp), dx.dtype.itemsize, thr, bsl)
                stages = len(plan)
                ctx.count("plans_inspected")
                if stages > 1:
                    ctx.count("multistage_plans")
                    ctx.distinct("plan_stage_counts", stages)
                if tuple(plan[-1]) != tuple(exp):
                    ctx.violation("plan_rechunk:%s:last-stage-is-not-the-target" % feat, "plan %r for target %r" % (plan, exp))
                for st in plan:
                    if tuple(sum(c) for c in st) != shape:
                        ctx.violation("plan_rechunk:%s:stage-does-not-add-up-to-shape" % feat, "stage %r, shape %r" % (st, shape))
            except Exception as e:  # noqa: BLE001
                ctx.exception(e, prefix="plan_rechunk:" + feat)
        try:
            with dask.config.set({"array.rechunk.method": cfg}):
                if case["api"] == "method":
                    r = dx.rechunk(tgt, threshold=thr, block_size_limit=bsl, balance=bal, method=method)
                else:
                    r = da.rechunk(dx, tgt, threshold=thr, block_size_limit=bsl, balance=bal, method=method)
            rv = r.compute(scheduler="threads" if case["threads"] else "sync")
        except NotImplementedError as e:
            ctx.unsupported(str(e))
            return
        except ImportError as e:
            if (method == "p2p" or cfg == "p2p") and "distributed" in str(e):
                ctx.count("p2p_clear_error")
                ctx.unsupported("p2p rechunk needs distributed: %s" % e)
            else:
                ctx.exception(e, prefix="rechunk:" + feat)
            return
        except Exception as e:  # noqa: BLE001
            if getattr(e, "_c23_seen", False):
                ctx.count("rechunk_stopped_by_normalize_chunks")
                if not getattr(e, "_c23_valid", True):
                    ctx.reject("invalid target spec: %s" % e)
                return
            if w.failed():
                ctx.count("rechunk_stopped_by_normalize_chunks")
                return
            ctx.exception(e, prefix="rechunk:" + (feat.replace("&auto", "").replace("auto", "plain")), method=method, config_method=cfg, threshold=thr, block_size_limit=bsl)
            return
    if method is None and cfg is None:
        ctx.count("default_method_fell_back_to_tasks")
    if (method == "p2p" or cfg == "p2p"):
        # only reachable when rechunk had nothing to do (same chunks / empty array) and returned early
        ctx.count("p2p_early_return")
    ctx.count("rechunk_compared")
    lab = "rechunk:%s:" % feat
    if stages is not None and stages > 1:
        lab = "rechunk:%s&multi-stage:" % feat
    got = tuple(tuple(c) for c in r.chunks)
    if len(got) != len(shape):
        ctx.violation(lab + "chunks-dimension-count", "chunks %r for shape %r" % (got, shape))
        return
    for ax, (g, e, n) in enumerate(zip(got, exp, shape)):
        if sum(g) != n or (n > 0 and any(v <= 0 for v in g)) or (n == 0 and any(v != 0 for v in g)) or len(g) == 0:
            ctx.violation(lab + "chunks-not-a-partition-of-the-axis", "axis %d: %r for length %d" % (ax, g, n))
        elif e is not None and not bal and g != e:
            ctx.violation(lab + "chunks-differ-from-requested", "axis %d: got %r, requested %r (target %r, source %r)" % (ax, g, e, tgt, src))
    m = compare_arrays(rv, x, exact=True)
    if m:
        ctx.violation(lab + m[0], m[1], chunks=repr(got), source=repr(src))
    m = lazy_meta_mismatch(r, rv)
    if m:
        ctx.violation(lab + m[0], m[1])
    nblocks = math.prod(len(c) for c in got)
    if nblocks <= 100:
        try:
            dl = r.to_delayed().ravel().tolist() if r.ndim else [r.to_delayed().item()]
            (blocks,) = dask.compute(dl, scheduler="sync")
        except Exception as e:  # noqa: BLE001
            ctx.exception(e, prefix=lab + "blocks")
            return
        ctx.count("block_shapes_checked")
        import itertools

        idxs = list(itertools.product(*[range(len(c)) for c in got]))
        offs = [np.concatenate([[0], np.cumsum(c)]).astype(int) for c in got]
        for idx, b in zip(idxs, blocks):
            want = tuple(got[a][i] for a, i in enumerate(idx))
            if np.shape(b) != want:
                ctx.violation(lab + "block-shape-differs-from-chunks", "block %r has shape %r, chunks say %r" % (idx, np.shape(b), want))
                break
            sl = tuple(slice(offs[a][i], offs[a][i + 1]) for a, i in enumerate(idx))
            if compare_arrays(np.asarray(b), x[sl], exact=True):
                ctx.violation(lab + "block-values", "block %r differs from the source slice %r" % (idx, sl))
                break
    ctx.sample = {"source": repr(src), "target": repr(tgt)[:80], "result": repr(got)[:120], "stages": stages,
                  "threshold": thr, "block_size_limit": bsl}
    # ---- sibling facet: the same source rechunked to ANOTHER target must not share keys with this result ---------
    # (outside the contract window: the sibling's normalize_chunks calls are not part of this case's contract counts)
    srng = S.rng_for(case)
    tgt2 = None
    for _ in range(6):
        enc = _rc_target(srng, shape, src)
        if _has_bytes(enc) and bsl is not None:
            continue
        cand = dec(enc)
        try:
            e2 = _expected_rechunk(cand, shape, src)
        except Exception:  # noqa: BLE001
            continue
        if any(c is None for c in e2) or tuple(e2) != got:
            tgt2 = cand
            break
    if tgt2 is not None:
        def sibling():
            with dask.config.set({"array.rechunk.method": cfg}):
                return dx.rechunk(tgt2, threshold=thr, block_size_limit=bsl, balance=bal, method=method)

        S.check(ctx, "rechunk", "chunks", r, sibling, compute=S.compute_blocks, compute_many=S.compute_many_blocks,
                describe={"target": repr(tgt2)[:80]})
    with _LOCK:
        _ST["failures"] = []      # whatever the contract recorded for the sibling's own calls is not this case's business


def _rx_data(seed, shape, dtype):
    if dtype in ("U3", "S2", "object"):
        r = np.random.default_rng(seed)
        words = np.array(["", "a", "bc", "def", "g", "hi"], dtype="U3")
        a = words[r.integers(0, len(words), int(np.prod(shape)))].reshape(shape)
        return a.astype(object) if dtype == "object" else a.astype(dtype)
    return A.rand_data(seed, shape, dtype)


def _nan_same(g, e):
    return len(g) == len(e) and all((_isnan(a) and _isnan(b)) or a == b for a, b in zip(g, e))


def _run_rx(case, ctx):
    """Parameter-audit families of the rechunk part: unknown chunk sizes, chunks > 255 elements, 4-d, chained rechunks,
    zero-width chunks inside a non-empty axis, list targets with None entries, float / configured byte limits, str and
    object dtypes, rechunk() without a chunks argument."""
    import itertools

    import dask
    import dask.array as da
    from dask.array.rechunk import plan_rechunk

    flav = case["flav"]
    shape = tuple(case["shape"])
    src = A.chunks_of_desc(case["src"])
    x = _rx_data(case["seed"], shape, case["dtype"])
    thr, bsl, method = case["threshold"], case["bsl"], case["method"]
    ctx.sig = {k: v for k, v in case.items() if k != "seed"}
    ctx.op("rx:" + flav)
    feat = RX_FEATURE[flav]
    kw = {"threshold": thr, "block_size_limit": bsl, "method": method}
    cfg = {} if case["cfgsize"] is None else {"array.chunk-size": case["cfgsize"]}
    uax, counts, expected = None, None, x
    stages = None
    with _Watch(ctx) as w:
        try:
            dx = da.from_array(x, chunks=src)
            cur = tuple(src)
            if flav == "unknown":
                uax = case["uax"]
                mask = np.random.default_rng(case["seed"] ^ 0x55).random(shape[uax]) < 0.6
                dm = da.from_array(mask, chunks=(src[uax],))
                sel = tuple([slice(None)] * uax)
                dx = dx[sel + (dm,)]           # boolean mask along one axis: its chunk sizes are unknown from here on
                expected = x[sel + (mask,)]
                offs = np.concatenate([[0], np.cumsum(src[uax])]).astype(int)
                counts = tuple(int(mask[offs[i]:offs[i + 1]].sum()) for i in range(len(src[uax])))
                if not all(_isnan(c) for c in dx.chunks[uax]):
                    ctx.reject("masking did not produce unknown chunk sizes")
                    return
                cur = tuple(dx.chunks)
        except Exception as e:  # noqa: BLE001
            ctx.exception(e, prefix="rechunk:source&" + feat)
            return
        targets = []
        for enc in list(case.get("chain", [])) + [case["tgt"]]:
            t = dec(enc)
            if isinstance(t, tuple) and any(isinstance(c, str) and c == "keepnan" for c in t):
                t = tuple(dx.chunks[uax] if (isinstance(c, str) and c == "keepnan") else c for c in t)
            targets.append(t)
        exps = []
        for t in targets:
            e = _expected_rechunk(t, shape, cur)
            exps.append(e)
            cur = tuple(c if c is not None else None for c in e)
            if any(c is None for c in cur):
                break                           # (auto dimensions only occur in single-stage families)
        explicit = all(c is not None for c in exps[-1])
        ctx.nontrivial = A.has_split(src) or any(c is None or len(c) >= 2 for c in exps[-1])
        results = []
        try:
            with dask.config.set(cfg):
                if explicit and len(targets) == 1 and not (flav == "unknown" and case["form"] == "refuse"):
                    try:
                        plan = plan_rechunk(dx.chunks, tuple(exps[-1]), dx.dtype.itemsize, thr, bsl)
                        stages = len(plan)
                        ctx.count("plans_inspected")
                        if stages > 1:
                            ctx.count("multistage_plans")
                            ctx.distinct("plan_stage_counts", stages)
                        if len(plan[-1]) != len(exps[-1]) or not all(_nan_same(a, b) for a, b in zip(plan[-1], exps[-1])):
                            ctx.violation("plan_rechunk:%s:last-stage-is-not-the-target" % feat, "plan %r for target %r" % (plan, exps[-1]))
                        if flav == "unknown" and stages != 1:
                            ctx.violation("plan_rechunk:%s:intermediate-stage-with-unknown-sizes" % feat, "plan %r" % (plan,))
                    except Exception as e:  # noqa: BLE001
                        ctx.exception(e, prefix="plan_rechunk:" + feat)
                r = dx
                for t in targets:
                    if case["api"] == "default":
                        r = r.rechunk(**kw)
                    elif case["api"] == "method":
                        r = r.rechunk(t, **kw)
                    else:
                        r = da.rechunk(r, t, **kw)
                    results.append(r)
                vals = dask.compute(*results, scheduler="sync")
        except NotImplementedError as e:
            ctx.unsupported(str(e))
            return
        except Exception as e:  # noqa: BLE001
            if (flav == "unknown" and case["form"] == "refuse" and isinstance(e, ValueError)
                    and "unchanging along dimensions with missing values" in str(e)):
                ctx.count("unknown_axis_change_refused")      # documented: an axis with unknown sizes cannot be rechunked
                return
            if getattr(e, "_c23_seen", False) or w.failed():
                ctx.count("rechunk_stopped_by_normalize_chunks")
                if not getattr(e, "_c23_valid", True):
                    ctx.reject("invalid target spec: %s" % e)
                return
            ctx.exception(e, prefix="rechunk:" + feat, method=method, threshold=thr, block_size_limit=bsl, target=repr(targets)[:120])
            return
    ctx.count("rx_compared")
    ctx.count("rx_" + flav)
    lab = "rechunk:%s%s:" % (feat, "&multi-stage" if stages is not None and stages > 1 else "")
    for k, (r, rv, exp) in enumerate(zip(results, vals, exps)):
        got = tuple(tuple(c) for c in r.chunks)
        if len(got) != len(shape):
            ctx.violation(lab + "chunks-dimension-count", "chunks %r for shape %r" % (got, shape))
            return
        for ax, (g, e, n) in enumerate(zip(got, exp, shape)):
            if ax == uax:
                if not (all(_isnan(v) for v in g) and len(g) == len(counts)):
                    ctx.violation(lab + "unknown-axis-chunks-changed", "axis %d: %r, source had %d unknown chunks" % (ax, g, len(counts)))
            elif len(g) == 0 or sum(g) != n or any(v < 0 for v in g):
                ctx.violation(lab + "chunks-not-a-partition-of-the-axis", "axis %d: %r for length %d" % (ax, g, n))
            elif e is not None and g != e:
                ctx.violation(lab + "chunks-differ-from-requested", "stage %d axis %d: got %r, requested %r (target %r)" % (k, ax, g, e, targets[k]))
        m = compare_arrays(rv, expected, exact=True)
        if m:
            ctx.violation(lab + m[0], "stage %d: %s" % (k, m[1]), chunks=repr(got), source=repr(src))
        m = lazy_meta_mismatch(r, rv)
        if m:
            ctx.violation(lab + m[0], m[1])
    r = results[-1]
    got = tuple(tuple(c) for c in r.chunks)
    real = tuple(counts if ax == uax else g for ax, g in enumerate(got))
    if math.prod(len(c) for c in got) <= 150 and all(not _isnan(v) for c in real for v in c):
        try:
            (blocks,) = dask.compute(r.to_delayed().ravel().tolist(), scheduler="sync")
        except Exception as e:  # noqa: BLE001
            ctx.exception(e, prefix=lab + "blocks")
            return
        ctx.count("rx_blocks_checked")
        offs = [np.concatenate([[0], np.cumsum(c)]).astype(int) for c in real]
        for idx, b in zip(itertools.product(*[range(len(c)) for c in real]), blocks):
            want = tuple(real[a][i] for a, i in enumerate(idx))
            if np.shape(b) != want:
                ctx.violation(lab + "block-shape-differs-from-chunks", "block %r has shape %r, expected %r" % (idx, np.shape(b), want))
                break
            sl = tuple(slice(offs[a][i], offs[a][i + 1]) for a, i in enumerate(idx))
            if compare_arrays(np.asarray(b), expected[sl], exact=True):
                ctx.violation(lab + "block-values", "block %r differs from the source slice %r" % (idx, sl))
                break
    ctx.sample = {"family": flav, "source": repr(src)[:80], "target": repr(targets)[:100], "result": repr(got)[:100], "stages": stages}


def _run_wl(case, ctx):
    import dask.array as da

    shape = tuple(case["shape"])
    chunks = A.chunks_of_desc(case["chunks"])
    op, dt = case["op"], case["dtype"]
    x = A.rand_data(case["seed"], shape, dt, special=False)
    rng = random.Random(case["seed"])
    ctx.op("wl:" + op)
    ctx.sig = {k: v for k, v in case.items() if k != "seed"}
    ctx.nontrivial = A.has_split(chunks) or case["spec"] in ("auto", "bytes", "dictauto", "int")
    sp = {"auto": "auto", "explicit": chunks, "int": rng.randint(1, 4), "bytes": rng.choice(BYTES), "neg1": -1,
          "dictauto": {0: "auto"}}[case["spec"]]
    if 0 in shape and case["spec"] in ("bytes", "dictauto"):
        ctx.count("wl_zero_length_with_auto")
    with _Watch(ctx) as w:
        try:
            if op == "from_array":
                r = da.from_array(x, chunks=sp)
            elif op == "creation":
                fn = rng.choice(("ones", "zeros", "full", "empty", "ones_like", "zeros"))
                if fn == "full":
                    r = da.full(shape, 3, chunks=sp, dtype=dt if "datetime" not in dt else "int64")
                elif fn == "ones_like":
                    r = da.ones_like(da.from_array(x, chunks=chunks), chunks=sp if case["spec"] != "explicit" else None)
                else:
                    r = getattr(da, fn)(shape, chunks=sp, dtype=dt if "datetime" not in dt else "int64")
            elif op == "rechunk":
                r = da.from_array(x, chunks=chunks).rechunk(sp if case["spec"] != "explicit" else A.rand_chunks(rng, shape))
            elif op == "reshape":
                if 0 in shape:
                    ctx.reject("reshape of an empty array belongs to C24")
                    return
                n = int(np.prod(shape))
                tgt = rng.choice([(n,), (-1,), (1, n), (n, 1)] + [(a, n // a) for a in range(1, n + 1) if n % a == 0][:6])
                r = da.from_array(x, chunks=chunks).reshape(tgt, merge_chunks=rng.random() < 0.5)
            elif op in ("concatenate", "stack"):
                ax = rng.randrange(len(shape))
                parts = [da.from_array(x, chunks=chunks), da.from_array(x, chunks=A.rand_chunks(rng, shape)), x]
                r = getattr(da, op)(parts[: rng.randint(1, 3)], axis=ax)
            elif op == "pad":
                if 0 in shape:
                    ctx.reject("pad of an empty axis")
                    return
                r = da.pad(da.from_array(x, chunks=chunks), rng.randint(0, 3), mode=rng.choice(("constant", "edge", "wrap")))
            elif op == "tile":
                r = da.tile(da.from_array(x, chunks=chunks), rng.randint(0, 3))
            elif op == "broadcast_to":
                r = da.broadcast_to(da.from_array(x, chunks=chunks), (rng.randint(1, 3),) + shape,
                                    chunks=None if rng.random() < 0.5 else ((1,) + chunks))
            elif op == "arange":
                r = da.arange(rng.randint(0, 40), chunks=rng.choice(("auto", 3, "16B", -1)), dtype=rng.choice(("int64", "float32")))
            elif op == "map_blocks":
                d = da.from_array(x, chunks=chunks)
                r = da.map_blocks(lambda b: b, d, dtype=d.dtype, chunks=d.chunks)
            elif op == "random":
                r = da.random.default_rng(1).random(shape, chunks=sp)
            elif op == "overlap":
                if 0 in shape:
                    ctx.reject("overlap on an empty axis")
                    return
                d = da.from_array(x, chunks=chunks)
                r = da.overlap.overlap(d, depth={i: min(1, min(c)) for i, c in enumerate(d.chunks)}, boundary="reflect")
            else:
                d = da.from_array(x, chunks=chunks)
                r = da.zeros_like(d) + da.asarray(x)
            ctx.count("wl_built")
            for c, n in zip(r.chunks, r.shape):
                if not _isnan(n) and sum(c) != n:
                    ctx.violation("workload:%s:result-chunks-do-not-add-up" % op, "chunks %r, shape %r" % (r.chunks, r.shape))
        except NotImplementedError as e:
            ctx.unsupported(str(e))
        except Exception as e:  # noqa: BLE001
            if getattr(e, "_c23_seen", False) or w.failed():
                ctx.count("workload_stopped_by_normalize_chunks")
                return
            # a failure that never touched normalize_chunks is not this property's business (C24/C34 own these operations)
            ctx.count("workload_failed_elsewhere")
            ctx.reject("outside C23: %s: %s" % (type(e).__name__, e))
