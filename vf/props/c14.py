"""C14 — compute, persist and optimize preserve structure and values.

Monitor: a seeded generator builds a nested Python structure (lists, tuples, sets,
dicts, OrderedDicts, dataclasses, namedtuples, iterators; plain leaves) holding small
dask collections of every kind (array, bag, delayed, dataframe through the pyarrow
import stub) together with the SAME structure holding each collection's reference
value (NumPy / pandas / plain Python, computed by the harness without dask).  The real
dask.compute / dask.persist / dask.optimize are then called and their results compared
structurally (container types exact, leaves unchanged, collection values equal to the
reference), for traverse on/off, schedulers sync / threads / processes / Executor and
optimize_graph on/off.

Calibration
* Iterators are documented to come back as lists.
* With traverse=False only top-level collections are computed; everything else must
  come back as the very same object.
* Sets can only hold hashable collections (Delayed); dict keys likewise.
"""
from __future__ import annotations

import collections
import dataclasses
import random
import warnings

import numpy as np

PROP = "C14"
RULE = ("cases = seeds of a generator of nested structures (depth <= 4) over list/tuple/set/dict/OrderedDict/dataclass/"
        "namedtuple/iterator containers with plain leaves and 1-6 small collections (array, bag, delayed, dataframe), x "
        "traverse in {True, False} x scheduler in {sync, threads, processes, Executor instance} x optimize_graph in "
        "{True, False}; persist and optimize are applied to the same arguments. non-trivial = >= 2 collections at nesting "
        "depth >= 1 (or a top-level mixture for traverse=False); distinct = distinct (seed, options).")
ASSUMPTIONS = ["reference values of the collections are computed by the harness with NumPy / pandas / plain Python",
               "dask.dataframe runs on the harness pyarrow import stub; 'processes' uses dask's own spawn pool (1 case in 12)"]
BUDGET = {"quick": 45, "thorough": 500}
FLOORS = {"quick": {"evaluations": 500, "distinct_nontrivial": 200,
                    "counters": {"compute_calls": 700, "persist_calls": 300, "optimize_calls": 300, "collections_compared": 700,
                                 "scheduler_processes": 8, "scheduler_executor": 60, "traverse_false": 60, "calls_with_repeated_collection": 40, "calls_with_only_bare_collections_repeated": 20,
                                 "dataclass_nodes": 150, "iterator_nodes": 150}},
          "thorough": {"evaluations": 12000, "distinct_nontrivial": 5000, "counters": {"compute_calls": 18000}}}
EXHAUSTIVE_SPACE = None
CLAIM = ("For every generated argument structure dask.compute returned the same nesting with every collection replaced by "
         "the harness reference value and every other leaf unchanged; persist/optimize returned collections of the same type "
         "and metadata computing to the reference; results were identical across the local schedulers and optimize_graph "
         "settings tried. Held = no counterexample among the executions observed.")
LEVEL_NOTE = "reference values by NumPy/pandas/Python; distributed scheduler not installed"
TECHNIQUE = "runtime monitoring: structural differential of compute/persist/optimize results against a harness repack with reference values"


@dataclasses.dataclass
class Rec:
    left: object
    right: object
    tag: str = "t"


Pt = collections.namedtuple("Pt", ["u", "v"])


class Opaque:
    """A leaf that must come back as the very same object."""

    def __eq__(self, o):
        return self is o

    def __hash__(self):
        return id(self)


def _inc(x):
    return x + 1


def _pair(a, b):
    return (a, b)


def cases(tier, seed):
    rng = random.Random(seed * 8191 + 13)
    n = 800 if tier == "quick" else 12000
    for i in range(n):
        r = rng.random()
        sched = "sync" if r < 0.45 else ("threads" if r < 0.78 else ("executor" if r < 0.97 else "processes"))
        yield {"seed": rng.randrange(2 ** 31), "depth": rng.choice((1, 2, 3, 4)), "traverse": rng.random() > 0.2,
               "scheduler": sched, "optimize_graph": rng.random() < 0.6, "nargs": rng.randint(1, 3),
               # the same collection passed more than once (as the same object), optionally with only bare collections
               # as arguments: results are per ARGUMENT, not per distinct collection
               "dup": rng.choice((None, None, None, "same", "all-coll"))}


def shard_setup(tier, seed):
    from vf.gen import frames

    frames.setup()


_POOL = {}


def _proc_pool():
    """One spawn pool per shard, reused (dask would otherwise start a fresh pool per call)."""
    if "p" not in _POOL:
        import multiprocessing
        from concurrent.futures import ProcessPoolExecutor

        _POOL["p"] = ProcessPoolExecutor(2, mp_context=multiprocessing.get_context("spawn"))
    return _POOL["p"]


def shard_finish():
    p = _POOL.pop("p", None)
    if p is not None:
        p.shutdown(wait=True, cancel_futures=True)
    return {}


class Gen:
    def __init__(self, case, ctx):
        import dask
        import dask.array as da
        import dask.bag as db
        from vf.gen import frames

        self.dask, self.da, self.db = dask, da, db
        self.frames = frames
        self.dd = frames.setup()
        self.rng = random.Random(case["seed"])
        self.ctx = ctx
        self.ncoll = 0
        self.deep = 0
        self.processes = case["scheduler"] == "processes"
        self.has_frame = False

    def collection(self, hashable_only=False):
        r = self.rng
        kind = "delayed" if hashable_only else r.choice(("array", "array", "bag", "delayed", "frame", "series"))
        if self.processes and kind in ("frame", "series"):
            kind = "array"   # worker processes do not have the pyarrow import stub (environment, not dask)
        self.ncoll += 1
        self.ctx.op("collection:" + kind)
        s = r.randrange(2 ** 31)
        if kind == "array":
            shape = tuple(r.randint(1, 5) for _ in range(r.randint(1, 2)))
            x = np.random.default_rng(s).integers(0, 9, shape)
            chunks = tuple(r.randint(1, n) for n in shape)
            c = self.da.from_array(x, chunks=chunks)
            op = r.choice(("id", "inc", "sum", "T"))
            if op == "inc":
                return c + 1, x + 1
            if op == "sum":
                return c.sum(axis=0), x.sum(axis=0)
            if op == "T":
                return c.T, x.T
            return c, x
        if kind == "bag":
            seq = [r.randint(0, 9) for _ in range(r.randint(1, 8))]
            b = self.db.from_sequence(seq, npartitions=r.randint(1, 3))
            if r.random() < 0.5:
                return b.map(_inc), [v + 1 for v in seq]
            return b, list(seq)
        if kind == "delayed":
            v = r.randint(0, 50)
            op = r.choice(("obj", "call", "tuple"))
            if op == "obj":
                return self.dask.delayed(v), v
            if op == "call":
                return self.dask.delayed(_inc)(v), v + 1
            return self.dask.delayed(_pair)(v, "s"), (v, "s")
        self.has_frame = True
        pdf = self.frames.rand_frame(s, nrows=r.randint(1, 8), index=r.choice(("range", "sorted")), cols=("a", "c", "b"))
        d = self.dd.from_pandas(pdf, npartitions=r.randint(1, 3))
        if kind == "series":
            return d.a + 1, pdf.a + 1
        return d.assign(z=d.a * 2), pdf.assign(z=pdf.a * 2)

    def leaf(self):
        r = self.rng
        k = r.choice(("int", "str", "none", "float", "bytes", "nparr", "opaque", "taskish"))
        if k == "int":
            return r.randint(-5, 5)
        if k == "str":
            return r.choice(("a", "key", "", "x-1"))
        if k == "none":
            return None
        if k == "float":
            return r.choice((0.5, -1.25))
        if k == "bytes":
            return b"raw"
        if k == "nparr":
            return np.arange(3)
        if k == "taskish":
            return (len, "abc")   # looks like a legacy task; is plain data here
        return Opaque()

    def node(self, depth, level=0):
        """returns (structure with lazy collections, same structure with reference values, same with 'iterator->list')"""
        r = self.rng
        if depth <= 0 or r.random() < 0.25:
            if r.random() < 0.6:
                c, ref = self.collection()
                if level >= 1:
                    self.deep += 1
                return c, ref
            v = self.leaf()
            return v, v
        kind = r.choice(("list", "tuple", "dict", "odict", "dataclass", "namedtuple", "iterator", "set"))
        self.ctx.op("container:" + kind)
        n = 2 if kind in ("dataclass", "namedtuple") else r.randint(0, 3)   # never drop a generated child
        if kind == "set":
            items = []
            for _ in range(n):
                if r.random() < 0.5:
                    items.append(self.collection(hashable_only=True))
                    if level >= 0:
                        self.deep += 1
                else:
                    v = r.choice((1, "s", None, 2.5, ("t", 1)))
                    items.append((v, v))
            lz = {a for a, _ in items}
            # two delayed that compute to the same value collapse in the result set, as in Python
            return lz, {b for _, b in items}
        kids = [self.node(depth - 1, level + 1) for _ in range(n)]
        lz, ref = [k[0] for k in kids], [k[1] for k in kids]
        if kind == "list":
            return lz, ref
        if kind == "tuple":
            return tuple(lz), tuple(ref)
        if kind == "iterator":
            self.ctx.count("iterator_nodes")
            return iter(lz), ref  # documented: iterators come back as lists
        if kind in ("dict", "odict"):
            typ = dict if kind == "dict" else collections.OrderedDict
            keys = r.sample(["k1", "k2", 3, ("t", 1), "z"], len(lz))
            a, b = typ(), typ()
            for k, x, y in zip(keys, lz, ref):
                u = r.random()
                if u < 0.15:   # a collection as dict key
                    ck, cref = self.dask.delayed(_inc)(len(a) + 100), len(a) + 101
                    self.ncoll += 1
                    self.deep += 1
                    a[ck], b[cref] = x, y
                elif u < 0.3:  # a hashable CONTAINER holding a collection as dict key (tuple / namedtuple / nested)
                    ck, cref = self.dask.delayed(_inc)(len(a) + 200), len(a) + 201
                    self.ncoll += 1
                    self.deep += 1
                    self.ctx.count("container_dict_keys")
                    shape = r.choice(("tuple", "namedtuple", "nested"))
                    if shape == "tuple":
                        a[(ck, 1)], b[(cref, 1)] = x, y
                    elif shape == "namedtuple":
                        a[Pt(ck, "p")], b[Pt(cref, "p")] = x, y
                    else:
                        a[("n", (ck, 2))], b[("n", (cref, 2))] = x, y
                else:
                    a[k], b[k] = x, y
            return a, b
        if kind == "dataclass":
            self.ctx.count("dataclass_nodes")
            while len(lz) < 2:
                v = self.leaf()
                lz.append(v)
                ref.append(v)
            tag = r.choice(("t", "left", "zz"))
            return Rec(lz[0], lz[1], tag), Rec(ref[0], ref[1], tag)
        while len(lz) < 2:
            v = self.leaf()
            lz.append(v)
            ref.append(v)
        return Pt(lz[0], lz[1]), Pt(ref[0], ref[1])


def _is_coll(x):
    import dask

    return dask.is_dask_collection(x)


def _cmp(got, exp, path="$"):
    """None or (kind, message)."""
    import pandas as pd
    from vf.gen import frames
    from vf.mon.compare import compare_arrays

    if isinstance(exp, Opaque):
        return None if got is exp else ("leaf-replaced", "%s: opaque leaf is not the same object" % path)
    if isinstance(exp, np.ndarray):
        if not isinstance(got, np.ndarray):
            return ("type", "%s: got %s expected ndarray" % (path, type(got).__name__))
        m = compare_arrays(got, exp)
        return None if m is None else ("value", "%s: %s" % (path, m[1]))
    if isinstance(exp, (pd.DataFrame, pd.Series)):
        m = frames.compare(got, exp)
        return None if m is None else ("value", "%s: %s" % (path, m[1]))
    if type(got) is not type(exp):
        if isinstance(exp, (np.generic, int, float)) and isinstance(got, (np.generic, int, float)) and not isinstance(exp, bool):
            return None if got == exp else ("value", "%s: %r vs %r" % (path, got, exp))
        return ("type", "%s: got %s expected %s" % (path, type(got).__name__, type(exp).__name__))
    if isinstance(exp, (list, tuple)):
        if len(got) != len(exp):
            return ("length", "%s: %d vs %d items" % (path, len(got), len(exp)))
        for i, (a, b) in enumerate(zip(got, exp)):
            m = _cmp(a, b, "%s[%d]" % (path, i))
            if m:
                return m
        return None
    if isinstance(exp, dict):
        if list(map(repr, got.keys())) != list(map(repr, exp.keys())):
            return ("keys", "%s: keys %r vs %r" % (path, list(got.keys()), list(exp.keys())))
        for (ka, a), (kb, b) in zip(got.items(), exp.items()):
            m = _cmp(a, b, "%s[%r]" % (path, kb))
            if m:
                return m
        return None
    if isinstance(exp, (set, frozenset)):
        return None if got == exp else ("value", "%s: set %r vs %r" % (path, got, exp))
    if dataclasses.is_dataclass(exp):
        for f in dataclasses.fields(exp):
            m = _cmp(getattr(got, f.name), getattr(exp, f.name), "%s.%s" % (path, f.name))
            if m:
                return m
        return None
    try:
        ok = got == exp
        ok = bool(ok)
    except Exception:  # noqa: BLE001
        ok = got is exp
    return None if ok else ("value", "%s: %r vs %r" % (path, got, exp))


def _collect(lz, ref, out):
    """pairs (lazy collection, reference) in structure order."""
    if _is_coll(lz):
        out.append((lz, ref))
        return
    if isinstance(lz, (list, tuple)) and not isinstance(ref, set):
        for a, b in zip(lz, ref):
            _collect(a, b, out)
    elif isinstance(lz, dict):
        for (ka, a), (kb, b) in zip(lz.items(), ref.items()):
            _collect(ka, kb, out)
            _collect(a, b, out)
    elif dataclasses.is_dataclass(lz) and not isinstance(lz, type):
        for f in dataclasses.fields(lz):
            _collect(getattr(lz, f.name), getattr(ref, f.name), out)


def _rebuild_iters(x):
    """iterators are consumed by a call; rebuild fresh ones for the next call (from saved lists)."""
    if isinstance(x, _IterBox):
        return iter([_rebuild_iters(v) for v in x.items])
    if isinstance(x, list):
        return [_rebuild_iters(v) for v in x]
    if isinstance(x, tuple) and hasattr(x, "_fields"):
        return type(x)(*[_rebuild_iters(v) for v in x])
    if isinstance(x, tuple):
        return tuple(_rebuild_iters(v) for v in x)
    if isinstance(x, collections.OrderedDict):
        return collections.OrderedDict((k, _rebuild_iters(v)) for k, v in x.items())
    if isinstance(x, dict):
        return {k: _rebuild_iters(v) for k, v in x.items()}
    if isinstance(x, Rec):
        return Rec(_rebuild_iters(x.left), _rebuild_iters(x.right), x.tag)
    return x


class _IterBox:
    def __init__(self, items):
        self.items = items


def _box_iters(x):
    """replace live iterators by boxes holding their items (done once, right after generation)."""
    import collections.abc as cabc

    if isinstance(x, cabc.Iterator):
        return _IterBox([_box_iters(v) for v in list(x)])
    if isinstance(x, list):
        return [_box_iters(v) for v in x]
    if isinstance(x, tuple) and hasattr(x, "_fields"):
        return type(x)(*[_box_iters(v) for v in x])
    if isinstance(x, tuple):
        return tuple(_box_iters(v) for v in x)
    if isinstance(x, collections.OrderedDict):
        return collections.OrderedDict((k, _box_iters(v)) for k, v in x.items())
    if isinstance(x, dict):
        return {k: _box_iters(v) for k, v in x.items()}
    if isinstance(x, Rec):
        return Rec(_box_iters(x.left), _box_iters(x.right), x.tag)
    return x


def run_case(case, ctx):
    import dask
    from concurrent.futures import ThreadPoolExecutor

    warnings.simplefilter("ignore")
    g = Gen(case, ctx)
    args_lz, args_ref = [], []
    for _ in range(case["nargs"]):
        a, b = g.node(case["depth"])
        args_lz.append(_box_iters(a))
        args_ref.append(b)
    dup = case.get("dup")
    if dup:
        idx = [i for i, a in enumerate(args_lz) if _is_coll(a)]
        if idx:
            if dup == "all-coll":
                args_lz, args_ref = [args_lz[i] for i in idx], [args_ref[i] for i in idx]
                idx = list(range(len(args_lz)))
            i = idx[case["seed"] % len(idx)]
            pos = case["seed"] % (len(args_lz) + 1)
            args_lz.insert(pos, args_lz[i])
            args_ref.insert(pos, args_ref[i])
            ctx.count("calls_with_repeated_collection")
            if dup == "all-coll":
                ctx.count("calls_with_only_bare_collections_repeated")
    trav = case["traverse"]
    ctx.nontrivial = (g.deep >= 2) if trav else (g.ncoll >= 1 and len(args_lz) >= 2)
    ctx.sig = (case["seed"], case["depth"], trav, case["scheduler"], case["optimize_graph"], case["nargs"])
    if not trav:
        ctx.count("traverse_false")
    feat = "traverse=%s:%s:optimize_graph=%s" % (trav, case["scheduler"], case["optimize_graph"])
    pool = None
    sched = case["scheduler"]
    if sched == "executor":
        pool = ThreadPoolExecutor(2)
        sched_arg = pool
    else:
        sched_arg = {"sync": "sync", "threads": "threads", "processes": "processes"}[sched]
    ctx.count("scheduler_" + sched)
    try:
        # ---- compute ---------------------------------------------------------------
        live = [_rebuild_iters(a) for a in args_lz]
        ctx.count("compute_calls")
        try:
            kw = {"pool": _proc_pool()} if sched == "processes" else {}
            res = dask.compute(*live, traverse=trav, scheduler=sched_arg, optimize_graph=case["optimize_graph"], **kw)
        except Exception as ex:  # noqa: BLE001
            ctx.exception(ex, prefix="compute:" + feat)
            return
        if not isinstance(res, tuple) or len(res) != len(live):
            ctx.violation("compute:%s:result-not-a-tuple-of-nargs" % feat, "got %r" % (type(res),))
            return
        if g.ncoll == 0:
            # nothing to compute: every argument is a non-collection leaf and must come back unchanged
            for i, (got, lz) in enumerate(zip(res, live)):
                if got is not lz:
                    ctx.violation("compute:no-collections:argument-replaced", "$%d is not the object passed in" % i)
            return
        for i, (got, lz, ref) in enumerate(zip(res, live, args_ref)):
            if trav or _is_coll(lz):
                m = _cmp(got, ref, "$%d" % i)
                npairs = []
                _collect(args_lz[i] if not isinstance(args_lz[i], _IterBox) else [], ref, npairs)
                ctx.count("collections_compared", max(1, len(npairs)))
            else:
                m = None if got is lz else ("non-collection-argument-replaced", "$%d: traverse=False must return the same object" % i)
            if m:
                ctx.violation("compute:%s:%s" % (feat, m[0]), m[1])
                return
        # ---- scheduler / optimize_graph invariance on the same arguments --------------------
        if sched != "processes":
            live = [_rebuild_iters(a) for a in args_lz]
            ctx.count("compute_calls")
            try:
                res2 = dask.compute(*live, traverse=trav, scheduler="sync", optimize_graph=not case["optimize_graph"])
            except Exception as ex:  # noqa: BLE001
                ctx.exception(ex, prefix="compute:traverse=%s:sync:optimize_graph=%s" % (trav, not case["optimize_graph"]))
                return
            for i, (a, b, lz) in enumerate(zip(res, res2, live)):
                if trav or _is_coll(lz):
                    m = _cmp(b, args_ref[i], "$%d" % i)
                    if m:
                        ctx.violation("compute:%s:differs-across-scheduler-or-optimize_graph:%s" % (feat, m[0]), m[1])
                        return
        # ---- persist / optimize ---------------------------------------------------------
        for fn_name in ("persist", "optimize"):
            live = [_rebuild_iters(a) for a in args_lz]
            ctx.count(fn_name + "_calls")
            # mechanism feature: dask.optimize hands the whole merged graph to the dataframe
            # collection's postpersist, which takes sorted(graph) as its output keys
            pre = fn_name + ((":dataframe-collection-among-arguments" if g.has_frame else ":no-dataframe")
                             if fn_name == "optimize" else ":traverse=%s" % trav)

            def bad(symptom, msg, exc=None, pre=pre):
                if fn_name == "optimize" and g.has_frame:
                    # one label per symptom class for this mechanism
                    cls = "exception" if exc is not None else (
                        "computes-to-different-value" if symptom.startswith("computes") else symptom.split(":")[0])
                    ctx.violation("%s:%s" % (pre, cls), msg if exc is None else "%s: %s" % (type(exc).__name__, exc))
                elif exc is not None:
                    ctx.exception(exc, prefix="%s:%s" % (pre, symptom))
                else:
                    ctx.violation("%s:%s" % (pre, symptom), msg)
            try:
                if fn_name == "persist":
                    out = dask.persist(*live, traverse=trav, scheduler="sync" if sched == "processes" else sched_arg,
                                       optimize_graph=case["optimize_graph"])
                else:
                    out = dask.optimize(*live, traverse=trav)
            except Exception as ex:  # noqa: BLE001
                bad("call", "", exc=ex)
                return
            if not isinstance(out, tuple) or len(out) != len(live):
                bad("result-not-a-tuple-of-nargs", repr(type(out)))
                return
            for i, (o, lz, ref) in enumerate(zip(out, live, args_ref)):
                if not (trav or _is_coll(lz)):
                    if o is not lz:
                        bad("non-collection-argument-replaced", "$%d" % i)
                        return
                    continue
                m = _meta_same(o, args_lz[i] if not isinstance(args_lz[i], _IterBox) else None, "$%d" % i)
                if m:
                    bad(m[0], m[1])
                    return
                try:
                    (val,) = dask.compute(o, scheduler="sync")
                except Exception as ex:  # noqa: BLE001
                    bad("compute-of-result", "", exc=ex)
                    return
                m = _cmp(val, ref, "$%d" % i)
                if m:
                    bad("computes-to-different-%s" % m[0], m[1])
                    return
    finally:
        if pool is not None:
            pool.shutdown(wait=True)
    ctx.sample = {"collections": g.ncoll, "nested": g.deep, "options": feat}


def _meta_same(new, old, path):
    """persist/optimize results: same structure of containers, collections of the same type and metadata."""
    import dask

    if old is None:
        return None
    if _is_coll(old):
        if type(new) is not type(old) and not (isinstance(new, type(old)) or isinstance(old, type(new))):
            # Delayed subclasses (DelayedLeaf -> Delayed) are the same collection type
            from dask.delayed import Delayed

            if not (isinstance(new, Delayed) and isinstance(old, Delayed)):
                return ("collection-type-changed", "%s: %s -> %s" % (path, type(old).__name__, type(new).__name__))
        from dask.delayed import Delayed as _D

        if isinstance(old, _D):   # Delayed answers every attribute lazily: no metadata to compare
            return None
        for attr in ("shape", "dtype", "chunks", "npartitions", "divisions"):
            if hasattr(old, attr):
                try:
                    a, b = getattr(old, attr), getattr(new, attr)
                except Exception:  # noqa: BLE001
                    continue
                if attr == "shape" and not all(isinstance(v, (int, float)) for v in a):
                    continue   # dataframe .shape holds a lazy scalar
                if repr(a) != repr(b):
                    return ("metadata-changed:" + attr, "%s: %s %r -> %r" % (path, attr, a, b))
        if hasattr(old, "_meta") and hasattr(new, "_meta"):
            import pandas as pd

            mo, mn = old._meta, new._meta
            if type(mo) is not type(mn):
                return ("metadata-changed:meta-kind", "%s: meta %s -> %s" % (path, type(mo).__name__, type(mn).__name__))
            if isinstance(mo, pd.DataFrame) and (list(mo.columns) != list(mn.columns)
                                                 or list(map(str, mo.dtypes)) != list(map(str, mn.dtypes))):
                return ("metadata-changed:columns", "%s: columns/dtypes changed" % path)
            if isinstance(mo, pd.Series) and (str(mo.dtype) != str(mn.dtype) or mo.name != mn.name):
                return ("metadata-changed:dtype", "%s: series dtype/name changed" % path)
        return None
    if isinstance(old, _IterBox):
        if not isinstance(new, list):
            return ("type", "%s: iterator should come back as list, got %s" % (path, type(new).__name__))
        old = old.items
    elif type(new) is not type(old):
        if not _contains_coll(old):
            return None
        return ("type", "%s: container %s -> %s" % (path, type(old).__name__, type(new).__name__))
    if isinstance(old, (list, tuple)):
        if len(new) != len(old):
            return ("length", "%s: %d -> %d items" % (path, len(old), len(new)))
        for i, (a, b) in enumerate(zip(new, old)):
            m = _meta_same(a, b, "%s[%d]" % (path, i))
            if m:
                return m
    elif isinstance(old, dict):
        if len(new) != len(old):
            return ("length", "%s: %d -> %d items" % (path, len(old), len(new)))
        for (ka, a), (kb, b) in zip(new.items(), old.items()):
            m = _meta_same(a, b, "%s[%r]" % (path, kb))
            if m:
                return m
    elif isinstance(old, Rec):
        for f in ("left", "right"):
            m = _meta_same(getattr(new, f), getattr(old, f), "%s.%s" % (path, f))
            if m:
                return m
    return None


def _contains_coll(x):
    out = []
    try:
        _collect(x, x, out)
    except Exception:  # noqa: BLE001
        return True
    return bool(out)
