"""C13 — collections computed together give the same values as computed alone.

Monitor.  A case is a tuple of 2-4 collection programs (dask.array, dask.dataframe through the pyarrow stand-in,
dask.bag, dask.delayed) built through the public APIs over NEAR-IDENTICAL inputs (vf/gen/c13_inputs.py): member 0
fixes (input variant, program, scalar operand, chunking, name option, kind); every other member changes exactly one
of these - another variant of the same input family (same bytes in another layout/shape/dtype, strings split
differently, equal values under another dtype or index, one element changed, other mask...), a near-identical scalar
operand / keyword value (1, 1.0, True, np.int8(1)...), other chunks / npartitions, name=None / False / explicit,
another collection kind over the same input, keyword vs positional argument - or repeats member 0 unchanged.

Oracle (the statement): for optimize_graph in (True, False) and both argument orders,
`dask.compute(c_0, ..., c_n, optimize_graph=og)[i]` equals `c_i.compute(optimize_graph=og)` (array: shape, dtype,
values NaN==NaN, masks; dataframe: pandas.testing; bag/delayed: structural equality including element types).

Observability for the mechanism behind the symptom (same property, own labels):
* shared keys: a key present in the materialised graphs of two members whose value, computed in each graph
  separately, differs  ->  `shared-key-with-different-values:<kinds>:<family>`;
* built alone: every member is also built and computed ALONE (no sibling collection alive, garbage collected) before
  the tuple is built; `c_i.compute()` next to its siblings must give that value as well.  dask.dataframe expressions are
  singletons keyed by name, so a name collision replaces the second collection at construction time - then
  "together" and "alone" agree trivially although one collection's result has replaced the other's.

Pandas inputs that are unequal but similar (c13_inputs.PANDAS_SIMILAR, about a third of the member stream): categoricals with
identical codes over permuted categories / the same labels over permuted categories / ordered vs unordered / labels as object or
str / an unused category — as a column, a Series or a CategoricalIndex; the same numbers under numpy and nullable dtypes (with a
missing element: NA / NaN / None, NA masked after holding a value); the same strings as object / str / string / categorical; the
same values under other index / columns / Series names; MultiIndex level order, names, unused level entries, level dtype (rows or
columns); the same wall clock times naive / in UTC / in other zones, the same instants shown in another zone, other units; the same
name -> data mapping in another column order.  They go through `dd.from_pandas` (plus programs that look at them: dtypes and
labels per partition, groupby / sort / drop_duplicates / value_counts on the column), `dask.delayed(pure=True)` arguments (frame,
column array, index, dtype object, inside a dict), `db.from_sequence([frame, 0])` and `da.from_array` (the Series / Index itself
where from_array takes it).  Half of the members come from the 3-4 closest variants of the family.

Sibling programs (family `siblings`, vf/gen/c13_siblings.py): the SAME input, ONE result-relevant parameter changed - 355
(operation, parameter) entries over the array, dataframe, bag and delayed APIs, 2-6 values each.  Every unordered pair of values of
every entry is a case of every run (complete sub-space), followed by seeded cases with 2-3 values and other input seeds.  Same
oracle as above (alone in isolation, together in both orders, optimize_graph on/off, shared keys, built next to each other), plus
one graph through a combining operation where natural: `da.concatenate` of the flattened arrays (same dtype), `dd.concat` (same
columns / dtypes), `db.concat`, `dask.delayed([a, b])`; each member's part of the combined result must equal its stand-alone
value (`combined-vs-alone:...`).  Parameters that only change the block structure are also observed through programs that turn the
structure into values (`*-block-shapes`, `*-partition-lengths`).  Labels `<facet>:<api>:siblings:<operation>:<parameter>:...`.

Input families with an already known mechanism are separately labelled and a small fraction of the stream:
`strings-resplit-at-hyphen` / `pandas-strings-resplit-at-hyphen` (DESIGN §6 #6/#7: object arrays tokenised through
"-".join) and `memmap-same-file` (np.memmap token ignores dtype and shape).

Calibration
* from_pandas sorts the index and casts nothing: values are compared with the collection computed alone, never with
  the input.
* If the member built alone cannot be built or computed (NumPy/pandas/dask refuse the program for this input, e.g.
  `object + 1`), the case is outside the statement (`rejected`); only failures that appear *because of the siblings*
  are reported.
* Results that cannot be compared with == (da.full_like(x, None) computes to toolz.curry objects whose == raises) are counted
  (`uncomparable_results`), never judged (thorough seed 0 gave two such alarms: the comparator raised, not dask).
* Sibling programs: `dataframe.shuffle.method` is set to "tasks".  The partd ("disk") shuffle dask picks for the sync scheduler
  returns the rows of an output partition in an order that changes between two computations of the SAME collection alone
  (shuffle / set_index / merge / groupby-apply results equal as row multisets, not as frames), so the statement has no reference
  value there; the tasks shuffle is deterministic.  Sorts are made on a unique column (ties have no defined order).
* `DatetimeIndex.freq` is not part of a value: `date_range(..).tz_localize("Europe/London")` (freq lost) and
  `.tz_localize("UTC").tz_convert("Europe/London")` (freq kept) are the same instants in winter, have the same token, and the
  result shows the freq of whichever was built first; frames / series are compared with check_freq=False.
* One-shot iterators / generators under intermediate bag keys (`file_to_blocks-*`) cannot be compared without consuming them:
  counted as `uncomparable_results`.
* A member whose graph cannot be materialised un-optimised (`sort_values` on an object column of ints: meta inference of `min`
  fails in `__dask_graph__()` although both computes work) skips the shared-key facet (`graph_not_materialisable`); all result
  comparisons have been made by then.
* `dd.from_pandas(frame with a CategoricalIndex whose categories are not in lexical order, npartitions >= 3)` does not return
  (`sorted_division_locations`, findings_proposed/C13.md): frames with a CategoricalIndex are cut into one partition.
* MultiIndex columns are generated with unique labels only: with a duplicated tuple label `x[label]` computes to a frame of
  another shape than pandas gives even alone, and next to `x.reset_index()` the column-projection union cannot be sorted
  (`_sort_mixed`, thorough seed 0: together:dataframe:multiindex:UFuncTypeError@...:_sort_mixed); duplicated column labels are
  outside dask.dataframe's domain.
* map_blocks functions declare the dtype they really return (a wrong `dtype=` makes `da.concatenate` cast the blocks, which is
  not a collision); `map_overlap(trim=False)` (chunks metadata no longer describe the blocks) is not generated.
* Equal values with another dtype are different results (the statement says "the same value"; dtype and element types
  are part of the comparison discipline of every collection kind), -0.0 == 0.0 and NaN == NaN are equal.
"""
from __future__ import annotations

import gc
import random
import shutil
import tempfile
import warnings

import numpy as np

from ..core.ctx import exc_label, through_shim
from ..gen import c13_inputs as I
from ..gen import c13_siblings as S
from ..mon.compare import compare_arrays

PROP = "C13"
RULE = ("cases = (input family, member list); member 0 = (kind, variant, program, scalar operand, chunking, name option), "
        "every further member differs from member 0 in exactly one of them (or in nothing). Families: layout, shape, dtype, "
        "one-element, strings-resplit, object-elements, masked, index-or-columns, pandas-strings-resplit, python-sequences, "
        "and - separately labelled, small - strings-resplit-at-hyphen, pandas-strings-resplit-at-hyphen, memmap-same-file, "
        "column-data-permuted; pandas similar inputs: categorical, nullable-vs-numpy, object-vs-str, axis-names, multiindex, "
        "timezones, column-order (half of their members from the 3-4 closest variants). "
        "Family 'siblings': (operation, parameter) of vf.gen.c13_siblings.OPS, members = 2-3 values of that one parameter over "
        "the same input; every unordered value pair of every operation is enumerated in every run, then seeded cases; members "
        "are also computed through one combining operation (concatenate / concat / delayed list). "
        "Each case: every member built and computed alone (isolated), then all built together and computed alone and "
        "together in both orders with optimize_graph True/False. non-trivial = at least two members are unequal but "
        "near-identical; distinct = distinct case description.")
ASSUMPTIONS = ["sync scheduler", "a collection built and computed while no other generated collection is alive defines its value",
               "pyarrow stand-in (pandas-backed dataframes, convert-string off)"]
BUDGET = {"quick": 100, "thorough": 560}
FLOORS = {
    # measured (quick, seed 0): 4109 cases, 3333 distinct non-trivial, built_alone 9936, together_computes 15820, results_compared
    # 39744, shared_keys_compared 17733, combined_computes 1194 / combined_results_compared 2470, sibling_cases 1509 (array 565,
    # dataframe 594, bag 222, delayed 128; 1339 with different stand-alone values), 355 sibling operations, pandas_similar_cases 781
    # (620 with different variants; categorical 216, nullable 122, timezones 118, object-vs-str 103, column-order 90, axis-names 84,
    # multiindex 48)
    "quick": {"evaluations": 1850, "distinct_nontrivial": 1500,
              "counters": {"together_computes": 7000, "results_compared": 17500, "built_alone": 4400,
                           "alone_vs_isolated_compared": 4400, "shared_keys_compared": 7900,
                           "sibling_cases": 680, "sibling_cases:array": 250, "sibling_cases:dataframe": 265, "sibling_cases:bag": 100,
                           "sibling_cases:delayed": 55, "sibling_cases_with_different_values": 600,
                           "sibling_cases_with_different_values:array": 230, "sibling_cases_with_different_values:dataframe": 235,
                           "sibling_cases_with_different_values:bag": 85, "sibling_cases_with_different_values:delayed": 48,
                           "combined_computes": 530, "combined_results_compared": 1100,
                           "pandas_similar_cases": 350, "pandas_similar_cases_with_different_variants": 280,
                           "pandas_similar:categorical": 95, "pandas_similar:nullable-vs-numpy": 55, "pandas_similar:object-vs-str": 45,
                           "pandas_similar:axis-names": 38, "pandas_similar:multiindex": 20, "pandas_similar:timezones": 50,
                           "pandas_similar:column-order": 40},
              "sets": {"sibling_operations": 320},
              "max_skipped_fraction": 0.15},
    "thorough": {"evaluations": 17000, "distinct_nontrivial": 13000,
                 "counters": {"together_computes": 65000, "results_compared": 160000, "built_alone": 40000,
                              "alone_vs_isolated_compared": 40000, "shared_keys_compared": 70000,
                              "sibling_cases": 4500, "sibling_cases:array": 1650, "sibling_cases:dataframe": 1800, "sibling_cases:bag": 650,
                              "sibling_cases:delayed": 330, "sibling_cases_with_different_values": 3900,
                              "sibling_cases_with_different_values:array": 1450, "sibling_cases_with_different_values:dataframe": 1550,
                              "sibling_cases_with_different_values:bag": 550, "sibling_cases_with_different_values:delayed": 270,
                              "combined_computes": 3500, "combined_results_compared": 8000,
                              "pandas_similar_cases": 3400, "pandas_similar_cases_with_different_variants": 2700,
                              "pandas_similar:categorical": 900, "pandas_similar:nullable-vs-numpy": 520, "pandas_similar:object-vs-str": 430,
                              "pandas_similar:axis-names": 360, "pandas_similar:multiindex": 190, "pandas_similar:timezones": 480,
                              "pandas_similar:column-order": 380},
                 "sets": {"sibling_operations": 320},
                 "max_skipped_fraction": 0.15},
}
EXHAUSTIVE_SPACE = "sibling programs: every operation of vf.gen.c13_siblings.OPS x every unordered pair of its parameter values (one input seed)"
CLAIM = ("Every generated tuple of near-identical collections (similar inputs, or the same input under sibling parameters of one operation) was computed by the real dask.compute together (both orders, "
         "optimize_graph on/off) and each member alone; results were compared with the comparison discipline of the collection "
         "kind, shared graph keys were evaluated in each member's graph, and each member was also built in isolation; held = no "
         "difference on the executions observed.")
LEVEL_NOTE = "the collection computed alone (and built in isolation) is the reference; NumPy/pandas are used only to compare results"
TECHNIQUE = ("runtime monitoring: together-vs-alone differential oracle over near-identical generated inputs and over sibling programs "
             "(same input, one parameter changed) + shared-key evaluation + one-graph combination")
CASE_TIMEOUT = 120

FAMILY_LABEL = {"pandas-strings-resplit-at-hyphen": "strings-resplit-at-hyphen", "pandas-strings-resplit": "strings-resplit"}
PENDING = {}
# Second round (sibling programs), genuine on the pinned tree and delivered as fix patches (findings_proposed/C13.md):
#   together-vs-alone:bag:siblings:read_text:files_per_partition:result-differs
#       -> fixes_ready/C13_01_read_text_files_per_partition_lazy_partitions.patch (partitions were one-shot iterators under shared keys)
#   together-vs-alone:array:siblings:reshape:merge_chunks:result-differs, together:array:siblings:reshape:merge_chunks:ValueError@local.py:start_state_from_dask
#       -> fixes_ready/SIB_01_reshape_merge_chunks_false_shares_keys.patch (same name, other chunks)
# Found by this check on the pinned tree and repaired since in dask/tokenize.py (findings_proposed/C13.md): hyphen re-split object
# strings, np.memmap tokens without dtype/shape, C/F layout collision reaching delayed arguments, DataFrame tokens without block
# placement.  Their input families stay in the stream as a small, separately labelled fraction.
KNOWN_FAMILIES = ("strings-resplit-at-hyphen", "pandas-strings-resplit-at-hyphen", "memmap-same-file", "column-data-permuted")

ARR_NUM = ["id", "add_s", "radd_s", "mul_s", "sum", "sum0", "T", "astype_s", "slice", "rechunk", "mb_kw", "where_s", "eq_s",
           "reshape", "stack_self", "neg", "mul_self", "full_like_s"]
ARR_ANY = ["id", "T", "slice", "rechunk", "mb_kw", "reshape", "stack_self", "eq_first", "slice_last"]
DF_PROGS = ["id", "add_s", "sum", "col0", "reset_index", "mp_kw", "to_array", "index", "assign_s", "head"]
DF_ANY = ["id", "col0", "reset_index", "mp_kw", "index", "assign_s", "head"]
BAG_PROGS = ["id", "map_kw", "filter", "count", "map_repr", "map_pos"]
DEL_PROGS = ["call", "call_kw", "call_pos", "literal", "nested", "op_add", "getitem", "call_list"]
DEL_SIMILAR = ["call", "call_kw", "call_pos", "literal", "nested", "call_list", "call_col0", "call_index", "call_dtype", "call_dict"]

_STATE = {}


def _ensure_env():
    if not _STATE.get("env"):
        import pandas  # noqa: F401

        from ..shim import install_pyarrow

        install_pyarrow()
        import dask
        import dask.dataframe  # noqa: F401

        # builders that compute while they build (Bag.repartition(partition_size=..), Bag.to_dataframe) must not start
        # a process pool inside a shard
        # the tasks shuffle is deterministic; the partd ("disk") shuffle that dask picks for the sync scheduler returns the rows
        # of a partition in an order that changes between two computations of the SAME collection (see Calibration)
        dask.config.set({"scheduler": "sync", "dataframe.shuffle.method": "tasks"})
        _STATE["env"] = True


def shard_setup(tier, seed):
    _ensure_env()
    d = tempfile.mkdtemp(prefix="vf-c13-")
    _STATE["dir"] = d
    _STATE["mm"] = I.MemmapFiles(d)
    _STATE["sib"] = S.Env(d)


def shard_finish():
    d = _STATE.get("dir")
    _STATE.pop("mm", None)
    _STATE.pop("sib", None)
    gc.collect()
    if d:
        shutil.rmtree(d, ignore_errors=True)
    return {}


# ---- block / element functions (module level: deterministic tokens) ---------------------------------------------------

def f_kw(b, k=None):
    out = np.empty(b.shape, dtype=object)
    out[...] = "%s:%r" % (type(k).__name__, k if not isinstance(k, np.ndarray) else (str(k.dtype), k.tolist()))
    return out


def f_df_kw(df, k=None):
    df = df.copy()
    if hasattr(df, "columns"):
        df["kw"] = "%s:%r" % (type(k).__name__, k if not isinstance(k, np.ndarray) else (str(k.dtype), k.tolist()))
        return df
    return df.astype(object).map(lambda v: "%s:%r:%r" % (type(k).__name__, k if not isinstance(k, np.ndarray) else k.tolist(), v))


def f_describe(df):
    """one-column object frame describing a partition: what similar inputs differ in"""
    import pandas as pd

    return pd.DataFrame({"what": [repr(_pd_picture(df))]})


def _focus(pdf):
    """(frame with a default index, name of the column that holds the family's data)"""
    import pandas as pd

    fr = pdf.to_frame(name=pdf.name if pdf.name is not None else "x") if isinstance(pdf, pd.Series) else pdf
    default = isinstance(fr.index, pd.RangeIndex) and fr.index.name is None
    if default:
        return fr, fr.columns[0], False
    return fr, None, True


def f_pack(x, k=None):
    return (type(x).__name__, _plain(x), type(k).__name__, _plain(k))


def f_pack_list(xs, k=None):
    return [f_pack(x, k) for x in xs]


def f_truthy(x):
    try:
        return bool(x)
    except Exception:  # noqa: BLE001
        return True


def _plain(v):
    """picture of a value with the types that matter, safe to compare with == (NaN as a string)"""
    if isinstance(v, np.ma.MaskedArray):
        return ("masked", str(v.dtype), v.shape, np.ma.getmaskarray(v).tolist(), _plain(np.ma.getdata(v)[~np.ma.getmaskarray(v)]), _plain(v.fill_value))
    if isinstance(v, np.ndarray):
        return ("ndarray", str(v.dtype), v.shape, [_plain(e) for e in v.ravel().tolist()] if v.dtype.kind in "OfcMm" else v.ravel().tolist())
    if isinstance(v, np.generic):
        return ("npscalar", str(v.dtype), _plain(v.item()))
    if isinstance(v, float):
        return "nan" if v != v else v
    if isinstance(v, (list, tuple)):
        return (type(v).__name__, [_plain(e) for e in v])
    if isinstance(v, dict):
        return ("dict", [(_plain(k), _plain(x)) for k, x in v.items()])
    import pandas as pd

    if isinstance(v, (pd.DataFrame, pd.Series, pd.Index, pd.api.extensions.ExtensionArray)):
        return _pd_picture(v)
    if isinstance(v, (np.dtype, pd.api.extensions.ExtensionDtype)):
        return ("dtype", repr(v))
    if v is pd.NA:
        return "<NA>"
    if v is pd.NaT:
        return "NaT"
    return v


def _values_picture(a):
    """dtype (categories in their order, ordered flag) and the elements with their types"""
    import pandas as pd

    dt = a.dtype
    extra = ()
    if isinstance(dt, pd.CategoricalDtype):
        extra = ([repr(c) for c in dt.categories], str(dt.categories.dtype), bool(dt.ordered))
    return (str(dt), extra, [repr(x) for x in a])


def _index_picture(ix):
    import pandas as pd

    if isinstance(ix, pd.MultiIndex):
        return ("MultiIndex", [repr(n) for n in ix.names], [_values_picture(ix.get_level_values(i)) for i in range(ix.nlevels)])
    return (type(ix).__name__, repr(ix.name), _values_picture(ix))


def _pd_picture(v):
    """structural picture of a pandas object: what two results must agree on to be the same value (types of the labels,
    dtypes, category order, time zone and unit through the dtype string and the element reprs, axis names)"""
    import pandas as pd

    if isinstance(v, pd.DataFrame):
        return ("DataFrame", _index_picture(v.columns), _index_picture(v.index), [_values_picture(v.iloc[:, j].array) for j in range(v.shape[1])])
    if isinstance(v, pd.Series):
        return ("Series", repr(v.name), _index_picture(v.index), _values_picture(v.array))
    if isinstance(v, pd.Index):
        return _index_picture(v)
    return (type(v).__name__, _values_picture(v))


# ---- case generation ------------------------------------------------------------------------------------------------------

FAMILY_WEIGHTS = [("layout", 14), ("shape", 8), ("dtype", 14), ("one-element", 10), ("strings-resplit", 8), ("object-elements", 5),
                  ("masked", 4), ("index-or-columns", 12), ("pandas-strings-resplit", 5), ("python-sequences", 12),
                  ("strings-resplit-at-hyphen", 3), ("pandas-strings-resplit-at-hyphen", 2), ("memmap-same-file", 3), ("column-data-permuted", 3),
                  # unequal-but-similar pandas data (c13_inputs.PANDAS_SIMILAR)
                  ("categorical", 12), ("nullable-vs-numpy", 8), ("object-vs-str", 7), ("axis-names", 6), ("multiindex", 6),
                  ("timezones", 6), ("column-order", 5)]
NVARIANTS = {"layout": 11, "shape": 6, "dtype": 21, "one-element": 4, "strings-resplit": 7, "object-elements": 3, "masked": 6,
             "index-or-columns": 15, "pandas-strings-resplit": 2, "python-sequences": 4, "strings-resplit-at-hyphen": 2,
             "pandas-strings-resplit-at-hyphen": 2, "memmap-same-file": 11, "column-data-permuted": 6,
             "categorical": 12, "nullable-vs-numpy": 11, "object-vs-str": 8, "axis-names": 12, "multiindex": 12, "timezones": 13,
             "column-order": 8}
FAMILY_KINDS = {
    "layout": ["array", "array", "dataframe", "delayed"],
    "shape": ["array", "array", "delayed", "bag"],
    "dtype": ["array", "array", "dataframe", "delayed", "bag"],
    "one-element": ["array", "array", "dataframe", "delayed", "bag"],
    "strings-resplit": ["array", "array", "dataframe", "delayed", "bag"],
    "object-elements": ["array", "delayed", "bag"],
    "masked": ["array", "array", "delayed"],
    "index-or-columns": ["dataframe", "dataframe", "dataframe", "delayed"],
    "pandas-strings-resplit": ["dataframe", "dataframe", "delayed"],
    "python-sequences": ["bag", "bag", "delayed", "delayed"],
    "strings-resplit-at-hyphen": ["array", "array", "delayed", "dataframe", "bag"],
    "pandas-strings-resplit-at-hyphen": ["dataframe", "dataframe", "delayed"],
    "memmap-same-file": ["array", "array", "delayed"],
    "column-data-permuted": ["dataframe", "dataframe", "delayed"],
}
for _f in I.PANDAS_SIMILAR:
    FAMILY_KINDS[_f] = ["dataframe", "dataframe", "dataframe", "dataframe", "delayed", "delayed", "bag", "array"]
NUMERIC_FAMILIES = {"layout", "shape", "one-element", "memmap-same-file", "index-or-columns", "column-data-permuted"}
DF_SIMILAR = ["id", "id", "col0", "reset_index", "mp_kw", "index", "assign_s", "head", "describe_mp", "describe_mp", "to_array_any",
              "groupby_first_col", "sort_first_col", "drop_duplicates", "value_counts_col0", "index_to_series"]


def _progs(kind, fam, rng):
    if kind == "array":
        return ARR_NUM if fam in NUMERIC_FAMILIES or (fam == "dtype" and rng.random() < 0.5) else ARR_ANY
    if fam in I.PANDAS_SIMILAR:
        return {"array": ["id", "slice", "eq_first", "stack_self", "mb_kw"], "dataframe": DF_SIMILAR, "bag": ["id", "map_kw", "map_repr", "count"],
                "delayed": DEL_SIMILAR}[kind]
    if kind == "dataframe":
        return DF_PROGS if fam in NUMERIC_FAMILIES or fam == "dtype" else DF_ANY
    if kind == "bag":
        return BAG_PROGS
    return DEL_PROGS


def cases(tier, seed):
    yield from _sibling_cases(tier, seed)
    rng = random.Random(seed * 7727 + 13)
    n = 2600 if tier == "quick" else 26000
    fams = [f for f, w in FAMILY_WEIGHTS for _ in range(w)]
    for _ in range(n):
        fam = rng.choice(fams)
        fseed = rng.randrange(1000)
        nv = NVARIANTS[fam]
        kind = rng.choice(FAMILY_KINDS[fam])
        similar = fam in I.PANDAS_SIMILAR
        # the first variants of a pandas family are its closest ones (same codes over permuted categories, same values under
        # the nullable dtype ...): half of the members are drawn from them
        base = {"kind": kind, "var": rng.randrange(3) if similar and rng.random() < 0.5 else rng.randrange(nv),
                "prog": rng.choice(_progs(kind, fam, rng)), "s": rng.choice(I.NUMERIC_SCALARS),
                "chunks": rng.randrange(4), "name": "default", "kwpos": "kw"}
        members = [base]
        for _j in range(rng.choice((1, 1, 2, 2, 3))):
            m = dict(base)
            what = rng.choice(("variant", "variant", "variant", "variant", "scalar", "scalar", "chunks", "name", "kind", "same", "kwpos", "prog"))
            if fam in KNOWN_FAMILIES and rng.random() < 0.7:
                what = "variant"
            if similar and rng.random() < 0.6:
                what = "variant"
            if what == "variant":
                m["var"] = rng.randrange(4) if similar and rng.random() < 0.5 else rng.randrange(nv)
            elif what == "scalar":
                m["s"] = rng.randrange(len(I.SCALARS))
            elif what == "chunks":
                m["chunks"] = rng.randrange(4)
            elif what == "name":
                m["name"] = rng.choice(("false", "explicit"))
            elif what == "kind":
                m["kind"] = rng.choice(FAMILY_KINDS[fam])
                if m["kind"] != kind:
                    m["prog"] = rng.choice(_progs(m["kind"], fam, rng))
            elif what == "kwpos":
                m["kwpos"] = "pos"
            elif what == "prog":
                m["prog"] = rng.choice(_progs(kind, fam, rng))
            m["diff"] = what
            members.append(m)
        yield {"family": fam, "fseed": fseed, "members": members}


def _sibling_cases(tier, seed):
    """complete: every operation x every unordered pair of its parameter values (one input seed derived from the run seed);
    then seeded: random operations with 2-3 values and other input seeds"""
    import itertools

    names = S.names()
    for name in names:
        nv = len(S.OPS[name][2])
        for a, b in itertools.combinations(range(nv), 2):
            yield {"space": "exhaustive", "family": "siblings", "op": name, "values": [a, b], "seed": seed % 5}
    rng = random.Random(seed * 4241 + 29)
    for _ in range(250 if tier == "quick" else 9000):
        name = rng.choice(names)
        nv = len(S.OPS[name][2])
        k = 3 if nv >= 3 and rng.random() < 0.5 else 2
        vals = rng.sample(range(nv), k)
        yield {"family": "siblings", "op": name, "values": vals, "seed": rng.randrange(50)}


# ---- building -------------------------------------------------------------------------------------------------------------

def _variants(fam, fseed):
    if fam == "memmap-same-file":
        if "mm" not in _STATE:
            _STATE["dir"] = tempfile.mkdtemp(prefix="vf-c13-")
            _STATE["mm"] = I.MemmapFiles(_STATE["dir"])
        return _STATE["mm"].family(fseed)
    if fam in I.NUMPY_FAMILIES:
        return I.NUMPY_FAMILIES[fam](fseed)
    if fam in I.PANDAS_FAMILIES:
        return I.PANDAS_FAMILIES[fam](fseed)
    return I.PY_FAMILIES[fam](fseed)


def _chunks_for(v, flavour):
    shape = np.shape(v)
    if not shape:
        return ()
    ch = [(n,) for n in shape]
    ax = 0 if flavour != 3 else len(shape) - 1
    n = shape[ax]
    if flavour in (1, 3) and n >= 2:
        ch[ax] = (n // 2, n - n // 2)
    elif flavour == 2 and n >= 2:
        ch[ax] = (1,) * n
    return tuple(ch)


def _to_pandas(v):
    import pandas as pd

    if isinstance(v, (pd.DataFrame, pd.Series)):
        return v
    if isinstance(v, np.ma.MaskedArray):
        v = v.filled()
    v = np.asarray(v) if not isinstance(v, np.ndarray) else v
    if v.ndim == 1:
        return pd.DataFrame({"a": v, "b": np.arange(len(v)) * 0.5})
    if v.ndim == 2:
        return pd.DataFrame(v, columns=list("abcdefgh")[: v.shape[1]])
    raise _Skip("no dataframe for %d-d input" % v.ndim)


def _to_seq(v):
    if isinstance(v, np.ndarray):
        if v.ndim == 0:
            raise _Skip("0-d")
        return list(v) if v.dtype.kind in "OMm" else v.tolist()
    if isinstance(v, (list, tuple, str)):
        return v
    raise _Skip("no sequence")


class _Skip(Exception):
    pass


def build(member, variants, idx, fam=None):
    """one collection from its description (fresh input objects on every call)"""
    import dask
    import dask.array as da
    import dask.bag as db
    import dask.dataframe as dd

    tag, maker = variants[member["var"] % len(variants)]
    v = maker()
    kind, prog = member["kind"], member["prog"]
    s = I.scalar(member["s"])
    if kind == "array":
        import pandas as pd

        if fam in I.PANDAS_SIMILAR:
            # the pandas object itself goes to from_array where it accepts it (numpy-dtype Series / Index, MultiIndex):
            # its token is then made by the pandas normalizers
            fr, col, in_index = _focus(v)
            src = fr.index if in_index else fr[col]
            v = src if (isinstance(src.dtype, np.dtype) and src.dtype.kind != "O") or isinstance(src, pd.MultiIndex) else src.to_numpy()
        elif isinstance(v, (pd.DataFrame, pd.Series)):
            v = v.to_numpy()
        if not isinstance(v, (np.ndarray, pd.Series, pd.Index)):
            v = np.asarray(v, dtype=object if isinstance(v, (list, tuple)) and any(isinstance(e, (list, tuple, dict, str, bytes)) for e in v) else None)
        kw = {}
        if member["name"] == "false":
            kw["name"] = False
        elif member["name"] == "true":
            kw["name"] = True
        elif member["name"] == "explicit":
            kw["name"] = "c13-explicit-%d" % idx
        x = da.from_array(v, chunks=_chunks_for(v, member["chunks"]), **kw)
        if prog == "id":
            return x
        if prog == "add_s":
            return x + s
        if prog == "radd_s":
            return s + x
        if prog == "mul_s":
            return x * s
        if prog == "sum":
            return x.sum()
        if prog == "sum0":
            return x.sum(axis=0)
        if prog == "T":
            return x.T
        if prog == "astype_s":
            return x.astype(np.asarray(s).dtype)
        if prog == "slice":
            return x[1:]
        if prog == "slice_last":
            return x[..., :1]
        if prog == "rechunk":
            return x.rechunk(tuple((1,) * n for n in x.shape))
        if prog == "mb_kw":
            return x.map_blocks(f_kw, k=s, dtype=object) if member["kwpos"] == "kw" else x.map_blocks(f_kw, s, dtype=object)
        if prog == "where_s":
            return da.where(x > 1, x, s)
        if prog == "eq_s":
            return x == s
        if prog == "eq_first":
            return x == x.ravel()[0]
        if prog == "reshape":
            return x.reshape(-1)
        if prog == "stack_self":
            return da.stack([x, x])
        if prog == "neg":
            return -x
        if prog == "mul_self":
            return x * x
        if prog == "full_like_s":
            return da.full_like(x, s)
        raise AssertionError(prog)
    if kind == "dataframe":
        pdf = _to_pandas(v)
        nparts = (1, 2, 3, 2)[member["chunks"]]
        if fam == "categorical" and type(pdf.index).__name__ == "CategoricalIndex":
            nparts = 1      # Calibration: from_pandas does not return for some CategoricalIndex inputs cut into >= 3 partitions
        x = dd.from_pandas(pdf, npartitions=nparts, sort=True)
        if prog == "id":
            return x
        if prog == "add_s":
            return x + s
        if prog == "sum":
            return x.sum()
        if prog == "col0":
            return x[pdf.columns[0]] if hasattr(pdf, "columns") else x
        if prog == "reset_index":
            return x.reset_index()
        if prog == "mp_kw":
            import pandas as pd

            if isinstance(pdf, pd.Series):
                return x.map_partitions(f_df_kw, k=s, meta=pd.Series([], dtype=object, name=pdf.name))
            return x.map_partitions(f_df_kw, k=s, meta=f_df_kw(pdf.iloc[:0], k=s))
        if prog == "to_array":
            return x.to_dask_array(lengths=True)
        if prog == "index":
            return x.index
        if prog == "assign_s":
            return x.assign(z=s) if hasattr(pdf, "columns") else x
        if prog == "head":
            return x.head(2, npartitions=-1, compute=False)
        if prog == "describe_mp":
            import pandas as pd

            return x.map_partitions(f_describe, meta=pd.DataFrame({"what": pd.Series([], dtype=object)}))
        if prog == "to_array_any":
            return x.to_dask_array(lengths=True)
        if prog == "index_to_series":
            return x.index.to_series()
        if prog in ("groupby_first_col", "sort_first_col", "drop_duplicates", "value_counts_col0"):
            fr, col, in_index = _focus(pdf)
            y = x.to_frame(name=fr.columns[0]) if not hasattr(pdf, "columns") else x
            if in_index:
                y = y.reset_index()
                col = y.columns[0]
            if prog == "groupby_first_col":
                return y.groupby(col, observed=False).size()
            if prog == "sort_first_col":
                return y.sort_values(col)
            if prog == "drop_duplicates":
                return y.drop_duplicates(subset=[col])
            return y[col].value_counts()
        raise AssertionError(prog)
    if kind == "bag":
        seq = [v, 0] if fam in I.PANDAS_SIMILAR else _to_seq(v)
        nparts = (1, 2, 3, None)[member["chunks"]]
        x = db.from_sequence(seq, npartitions=nparts) if nparts else db.from_sequence(seq, partition_size=2)
        if prog == "id":
            return x
        if prog == "map_kw":
            return x.map(f_pack, k=s)
        if prog == "map_pos":
            return x.map(f_pack, s)
        if prog == "filter":
            return x.filter(f_truthy)
        if prog == "count":
            return x.count()
        if prog == "map_repr":
            return x.map(repr)
        raise AssertionError(prog)
    # delayed
    d = dask.delayed
    if prog == "call":
        return d(f_pack, pure=True)(v)
    if prog == "call_kw":
        return d(f_pack, pure=True)(v, k=s) if member["kwpos"] == "kw" else d(f_pack, pure=True)(v, s)
    if prog == "call_pos":
        return d(f_pack, pure=True)(v, s)
    if prog == "literal":
        return d(v, pure=True)
    if prog == "nested":
        return d(f_pack, pure=True)(d(f_pack, pure=True)(v), k=s)
    if prog == "op_add":
        return d(v, pure=True) + s
    if prog == "getitem":
        return d(v, pure=True)[0]
    if prog == "call_list":
        return d(f_pack_list, pure=True)([v, s], k=s)
    if prog in ("call_col0", "call_index", "call_dtype", "call_dict"):
        fr, col, in_index = _focus(v)
        if prog == "call_col0":
            return d(f_pack, pure=True)(fr.index.array if in_index and not hasattr(fr.index, "levels") else fr.iloc[:, 0].array)
        if prog == "call_index":
            return d(f_pack, pure=True)(fr.index, k=fr.columns)
        if prog == "call_dtype":
            return d(f_pack, pure=True)(fr.index.dtype if in_index else fr.dtypes.iloc[0], k=s)
        return d(f_pack, pure=True)({"x": v, "n": 1}, k=[v.index])
    raise AssertionError(prog)


# ---- comparison -------------------------------------------------------------------------------------------------------------

def differs(a, b):
    """None when two results are the same value, else (symptom, message)"""
    try:
        return _differs(a, b)
    except Exception as ex:  # noqa: BLE001
        if type(a) is not type(b):
            return "type", "%s vs %s (%s)" % (type(a).__name__, type(b).__name__, type(ex).__name__)
        # same type but == itself fails (e.g. results holding toolz.curry objects with array arguments): no verdict
        try:
            import pickle

            if pickle.dumps(a) == pickle.dumps(b):
                return None
        except Exception:  # noqa: BLE001
            pass
        return "uncomparable", "%s values cannot be compared (%s)" % (type(a).__name__, type(ex).__name__)


def _differs(a, b):
    import pandas as pd

    if hasattr(a, "__next__") or hasattr(b, "__next__"):
        # one-shot iterators / generators (values of intermediate bag keys): nothing to compare without consuming them
        return "uncomparable", "iterator"

    if isinstance(a, (pd.DataFrame, pd.Series, pd.Index)) or isinstance(b, (pd.DataFrame, pd.Series, pd.Index)):
        if type(a) is not type(b):
            return "type", "%s vs %s" % (type(a).__name__, type(b).__name__)
        try:
            if isinstance(a, pd.DataFrame):
                pd.testing.assert_frame_equal(a, b, check_exact=True, check_freq=False)
            elif isinstance(a, pd.Series):
                pd.testing.assert_series_equal(a, b, check_exact=True, check_freq=False)
            else:
                pd.testing.assert_index_equal(a, b, exact=True)
        except AssertionError as ex:
            msg = " ".join(str(ex).split())
            sym = "dtype" if "dtype" in msg or "Attribute \"dtype\"" in msg else "index" if ".index" in msg else "columns" if "columns" in msg else "values"
            return sym, msg[:300]
        return None
    if isinstance(a, (np.ndarray, np.generic)) or isinstance(b, (np.ndarray, np.generic)):
        if isinstance(a, np.ndarray) != isinstance(b, np.ndarray) or isinstance(a, np.ma.MaskedArray) != isinstance(b, np.ma.MaskedArray) \
                or not (isinstance(a, (np.ndarray, np.generic)) and isinstance(b, (np.ndarray, np.generic))):
            return "type", "%s vs %s" % (type(a).__name__, type(b).__name__)
        if isinstance(a, np.ma.MaskedArray) and a.shape == b.shape and not np.array_equal(np.asarray(a.fill_value), np.asarray(b.fill_value), equal_nan=False) \
                and _plain(a.fill_value) != _plain(b.fill_value):
            return "fill_value", "%r vs %r" % (a.fill_value, b.fill_value)
        if np.asarray(a).dtype == object and np.asarray(b).dtype == object and not isinstance(a, np.ma.MaskedArray):
            if np.shape(a) != np.shape(b):
                return "shape", "%s vs %s" % (np.shape(a), np.shape(b))
            return None if _plain(np.asarray(a)) == _plain(np.asarray(b)) else ("values", "%r vs %r" % (a, b))
        return compare_arrays(a, b, exact=True)
    pa, pb = _plain(a), _plain(b)
    if type(a) is not type(b):
        return "type", "%s vs %s" % (type(a).__name__, type(b).__name__)
    if pa != pb:
        return "values", "%r vs %r" % (a, b)
    return None


def _kind_of(c):
    m = type(c).__module__
    return "array" if m.startswith("dask.array") else "dataframe" if m.startswith("dask.dataframe") else "bag" if m.startswith("dask.bag") else "delayed"


def run_case(case, ctx):
    _ensure_env()
    fam = case["family"]
    if fam == "siblings":
        return _run_siblings(case, ctx)
    members = case["members"]
    ctx.op("family:" + fam)
    for m in members[1:]:
        ctx.op("differs-in:" + m["diff"])
    for m in members:
        ctx.op("%s:%s" % (m["kind"], m["prog"]))
    ctx.sig = (fam, case["fseed"], [[m[k] for k in ("kind", "var", "prog", "s", "chunks", "name", "kwpos")] for m in members])
    try:
        variants = _variants(fam, case["fseed"])
    except Exception as ex:  # noqa: BLE001  reference side (numpy/pandas refuse to build the input)
        ctx.reject("input family: %r" % (ex,))
        return
    tags = [variants[m["var"] % len(variants)][0] for m in members]
    ctx.nontrivial = len({(t, m["s"], m["kind"], m["prog"], m["kwpos"]) for t, m in zip(tags, members)}) >= 2
    builders = [(lambda m=m, i=i: build(m, variants, i, fam)) for i, m in enumerate(members)]
    done = _judge(ctx, builders, [m["kind"] for m in members], tags, FAMILY_LABEL.get(fam, fam), [m["prog"] for m in members])
    if done:
        if fam in I.PANDAS_SIMILAR:
            ctx.count("pandas_similar_cases")
            ctx.count("pandas_similar:" + fam)
            if len(set(tags)) >= 2:
                ctx.count("pandas_similar_cases_with_different_variants")
        ctx.sample = {"family": fam, "variants": tags, "kinds": [m["kind"] for m in members], "programs": [m["prog"] for m in members],
                      "differs_in": [m.get("diff") for m in members[1:]]}


def _run_siblings(case, ctx):
    """the SAME input, one result-relevant parameter changed: the members of the case are the values case["values"] of the
    one parameter of operation case["op"] (vf/gen/c13_siblings.py)"""
    name = case["op"]
    api, param, values, fn = S.OPS[name]
    if "sib" not in _STATE:
        _STATE["dir"] = _STATE.get("dir") or tempfile.mkdtemp(prefix="vf-c13-")
        _STATE["sib"] = S.Env(_STATE["dir"])
    env = _STATE["sib"]
    idx = case["values"]
    ctx.op("family:siblings")
    ctx.op("siblings:" + name)
    ctx.sig = ("siblings", name, idx, case["seed"])
    tags = ["%s=%r" % (param, values[i]) for i in idx]
    builders = [(lambda i=i: fn(env, case["seed"], values[i])) for i in idx]
    opname = name.split("/", 1)[1]
    done = _judge(ctx, builders, [api] * len(idx), tags, "siblings:" + opname, [opname] * len(idx), combine=True, sibling_api=api)
    if done:
        ctx.count("sibling_cases")
        ctx.count("sibling_cases:" + api)
        ctx.distinct("sibling_operations", name)
        ctx.sample = {"family": "siblings", "op": name, "values": tags, "seed": case["seed"]}


def _combined(cols, api, alone_vals):
    """one collection holding all members (concatenate / concat / delayed list), or None where that is not natural:
    returns (collection, splitter(result) -> list of per-member values)"""
    import dask
    import dask.array as da
    import dask.bag as db
    import dask.dataframe as dd
    import pandas as pd

    kinds = {_kind_of(c) for c in cols}
    if len(kinds) != 1:
        return None
    kind = kinds.pop()
    if kind == "array":
        if any(np.isnan(c.shape).any() if c.shape else False for c in cols) or len({str(c.dtype) for c in cols}) != 1 \
                or any(isinstance(v, np.ma.MaskedArray) for v in alone_vals):
            return None
        flat = [c.reshape(-1) for c in cols]
        sizes = [int(np.prod(c.shape)) if c.shape else 1 for c in cols]
        shapes = [tuple(c.shape) for c in cols]

        def split(r):
            out, k = [], 0
            for n, shp in zip(sizes, shapes):
                piece = r[k:k + n].reshape(shp)
                out.append(piece if shp else piece[()])
                k += n
            return out
        return da.concatenate(flat), split
    if kind == "dataframe":
        if not all(isinstance(v, pd.DataFrame) for v in alone_vals) and not all(isinstance(v, pd.Series) for v in alone_vals):
            return None
        if isinstance(alone_vals[0], pd.DataFrame):
            if any(list(v.columns) != list(alone_vals[0].columns) or list(map(str, v.dtypes)) != list(map(str, alone_vals[0].dtypes))
                   or v.columns.names != alone_vals[0].columns.names for v in alone_vals):
                return None
        elif any(str(v.dtype) != str(alone_vals[0].dtype) or v.name != alone_vals[0].name for v in alone_vals):
            return None
        if any(str(v.index.dtype) != str(alone_vals[0].index.dtype) or v.index.names != alone_vals[0].index.names
               or type(v.index) is not type(alone_vals[0].index) for v in alone_vals):
            return None
        if any(not hasattr(c, "npartitions") or not hasattr(c, "divisions") for c in cols):
            return None
        lens = [len(v) for v in alone_vals]

        def split(r):
            out, k = [], 0
            for n in lens:
                out.append(r.iloc[k:k + n])
                k += n
            return out
        return dd.concat(list(cols)), split
    if kind == "bag":
        if any(not hasattr(c, "npartitions") for c in cols) or not all(isinstance(v, list) for v in alone_vals):
            return None
        lens = [len(v) for v in alone_vals]

        def split(r):
            out, k = [], 0
            for n in lens:
                out.append(r[k:k + n])
                k += n
            return out
        return db.concat(list(cols)), split
    return dask.delayed(list(cols)), (lambda r: list(r))


def _judge(ctx, builders, kinds, tags, famlabel, progs, combine=False, sibling_api=None):
    """the oracle of the statement on one tuple of collections given by thunks that build them afresh.
    Returns True when the tuple was judged (False: outside the statement / environment)."""
    import dask

    n = len(builders)
    OG = (True, False)
    with warnings.catch_warnings():
        warnings.simplefilter("ignore")
        # ---- 1. every member built and computed alone, nothing else alive ----------------------------------------------
        need_gc = any(k == "dataframe" for k in kinds)  # expression singletons live in a weak registry
        if need_gc:
            gc.collect()
        iso = []
        for i in range(n):
            try:
                c = builders[i]()
                vals = {og: c.compute(scheduler="sync", optimize_graph=og) for og in OG}
            except _Skip as ex:
                ctx.reject(str(ex))
                return False
            except NotImplementedError as ex:
                ctx.unsupported(str(ex))
                return False
            except Exception as ex:  # noqa: BLE001  the program is refused for this input even alone: not this property
                if through_shim(ex):
                    ctx.envlimited(str(ex))
                    return False
                ctx.reject("alone: %s: %s" % (type(ex).__name__, " ".join(str(ex).split())[:120]))
                return False
            iso.append(vals)
            del c
            if need_gc:
                gc.collect()
        ctx.count("built_alone", n)
        if sibling_api is not None:
            # the parameter is result-relevant when the members' stand-alone values differ (or the same values are cut
            # into other blocks, which the *-block-shapes / *-partition-lengths programs turn into values)
            if any(differs(iso[0][True], iso[i][True]) is not None for i in range(1, n)):
                ctx.count("sibling_cases_with_different_values")
                ctx.count("sibling_cases_with_different_values:" + sibling_api)
                ctx.nontrivial = True
            else:
                ctx.count("sibling_cases_with_equal_values")

        # ---- 2. all members built next to each other -------------------------------------------------------------------
        cols = []
        for i in range(n):
            try:
                cols.append(builders[i]())
            except Exception as ex:  # noqa: BLE001  it could be built alone a moment ago
                if through_shim(ex):
                    ctx.envlimited(str(ex))
                    return False
                ctx.violation("built-next-to-siblings-vs-built-alone:%s:%s:raises" % (kinds[i], famlabel),
                              "member %d (%s, variant %s) cannot be built next to its siblings: %s: %s" % (
                                  i, progs[i], tags[i], type(ex).__name__, ex), variants=tags, where=exc_label(ex))
                return False
        reported = set()

        def report(i, facet, d, other=None):
            """one label per affected member and case: the first facet that shows it"""
            if d[0] == "uncomparable":  # Calibration: never a verdict
                ctx.count("uncomparable_results")
                return
            if i in reported:
                return
            reported.add(i)
            sib = None
            if other is not None:
                for j in range(n):
                    if j != i and differs(other, iso[j][True]) is None and differs(iso[i][True], iso[j][True]) is not None:
                        sib = j
                        break
            ctx.violation("%s:%s:%s:result-differs" % (facet, kinds[i], famlabel),
                          "member %d (%s, variant %s): %s: %s%s" % (i, progs[i], tags[i], d[0], d[1],
                                                                 "; equals what sibling %d (variant %s) gives alone" % (sib, tags[sib]) if sib is not None else ""),
                          variants=tags, shared_keys=_shared_key_names(cols))

        # the statement: together == alone, both orders, optimize_graph on/off
        alone = []
        for i, c in enumerate(cols):
            try:
                alone.append({og: c.compute(scheduler="sync", optimize_graph=og) for og in OG})
            except Exception as ex:  # noqa: BLE001
                ctx.exception(ex, prefix="alone-next-to-siblings:%s:%s" % (kinds[i], famlabel))
                return False
        for og in OG:
            for order in ("fwd", "rev"):
                idx = list(range(len(cols)))
                if order == "rev":
                    idx.reverse()
                try:
                    res = dask.compute(*[cols[i] for i in idx], scheduler="sync", optimize_graph=og)
                except Exception as ex:  # noqa: BLE001
                    ctx.exception(ex, prefix="together:%s:%s" % ("+".join(sorted(set(kinds))), famlabel), variants=tags)
                    continue
                ctx.count("together_computes")
                for pos, i in enumerate(idx):
                    ctx.count("results_compared")
                    d = differs(res[pos], alone[i][og])
                    if d:
                        report(i, "together-vs-alone", d, res[pos])

        # ---- 2b. one graph through a combining operation (concatenate / concat / a delayed list) ------------------------
        if combine:
            try:
                comb = _combined(cols, kinds[0], [iso[i][True] for i in range(n)])
            except Exception:  # noqa: BLE001  dask refuses to combine these (other columns, unknown shapes ..): no verdict
                comb = None
                ctx.count("combined_refused")
            if comb is not None:
                coll, split = comb
                try:
                    pieces = split(coll.compute(scheduler="sync"))
                except Exception as ex:  # noqa: BLE001  each member computes alone, the combination of them raises
                    ctx.exception(ex, prefix="combined:%s:%s" % (kinds[0], famlabel), variants=tags)
                    pieces = None
                if pieces is not None:
                    ctx.count("combined_computes")
                    for i in range(n):
                        ctx.count("combined_results_compared")
                        d = _differs_combined(pieces[i], iso[i][True], kinds[0])
                        if d:
                            report(i, "combined-vs-alone", d, None)

        # ---- 3. mechanism: shared keys with different values ---------------------------------------------------------------
        _shared_keys(ctx, cols, kinds, famlabel, tags, reported)

        # ---- 4. mechanism: value already replaced at construction (expression singletons) -----------------------------------
        for i in range(len(cols)):
            ctx.count("alone_vs_isolated_compared")
            d = differs(alone[i][True], iso[i][True])
            if d:
                report(i, "built-next-to-siblings-vs-built-alone", d, alone[i][True])
        del cols, alone
    if need_gc:
        gc.collect()
    return True


def _differs_combined(piece, alone, kind):
    """a member's rows / elements inside the combined collection against its stand-alone value (the combination keeps
    values, dtype and order; a frame's index labels are kept, the freq / RangeIndex-ness of the index is not)"""
    import pandas as pd

    if kind == "dataframe" and isinstance(alone, (pd.DataFrame, pd.Series)):
        try:
            if isinstance(alone, pd.DataFrame):
                pd.testing.assert_frame_equal(piece, alone, check_exact=True, check_index_type=False, check_freq=False)
            else:
                pd.testing.assert_series_equal(piece, alone, check_exact=True, check_index_type=False, check_freq=False)
        except AssertionError as ex:
            return "values", " ".join(str(ex).split())[:300]
        return None
    return differs(piece, alone)


def _graph(c):
    return dict(c.__dask_graph__())


def _shared_key_names(cols):
    try:
        gs = [set(_graph(c)) for c in cols]
    except Exception:  # noqa: BLE001
        return None
    out = []
    for i in range(len(gs)):
        for j in range(i + 1, len(gs)):
            sh = gs[i] & gs[j]
            if sh:
                out.append([i, j, sorted(map(repr, sh))[:4]])
    return out


def _shared_keys(ctx, cols, kinds, fam, tags, reported):
    import dask

    try:
        graphs = [_graph(c) for c in cols]
    except Exception:  # noqa: BLE001  Calibration: every member computed (optimised and not); this facet only names a mechanism
        ctx.count("graph_not_materialisable")
        return
    for i in range(len(cols)):
        for j in range(i + 1, len(cols)):
            shared = set(graphs[i]) & set(graphs[j])
            if not shared:
                continue
            ctx.count("pairs_with_shared_keys")
            for k in sorted(shared, key=repr)[:12]:
                try:
                    vi = dask.get(graphs[i], k)
                    vj = dask.get(graphs[j], k)
                except Exception:  # noqa: BLE001  a key that cannot be computed on its own is not judged
                    ctx.count("shared_key_not_computable")
                    continue
                ctx.count("shared_keys_compared")
                d = differs(vi, vj)
                if d and d[0] == "uncomparable":
                    ctx.count("uncomparable_results")
                    continue
                if d and i not in reported and j not in reported:
                    reported.update((i, j))
                    ctx.violation("shared-key-with-different-values:%s:%s" % ("+".join(sorted({kinds[i], kinds[j]})), fam),
                                  "key %r is %r in member %d (variant %s) and %r in member %d (variant %s)" % (
                                      k, vi, i, tags[i], vj, j, tags[j]), variants=tags)
                    break
