"""C53 — SerializableLock keeps its identity across pickling.

Monitor: an *identity group* is one ``SerializableLock`` created by the case
plus every copy of it made by pickle (all protocols, one ``dumps`` loaded
several times, containers), cloudpickle, ``copy.copy`` and ``copy.deepcopy``
in chains, stars and random trees.  Two kinds of observation:

* deterministic: while member ``x`` of a group is held, ``y.acquire(False)``
  must fail for every member ``y`` (from the same thread and from another
  thread, also for copies made *while* the lock is held); after release it must
  succeed; while a member of group A is held, a non-blocking acquire of a member
  of a separately created group B (different token) must succeed.
* threads: 2-8 threads run ~200 acquire/release rounds each, every round on a
  (seeded) random member of the group, with ``with``, ``acquire()``,
  ``acquire(True, timeout)`` and spinning ``acquire(False)`` forms.  The monitor
  is an occupancy counter per identity group, incremented right after the
  acquire and decremented right before the release (under a harness-owned
  monitor lock, with ``time.sleep(0)`` yields between the acquire and the
  counter update to widen the interleavings); it must never exceed 1, and the
  recorded enter/leave history must alternate.  A second group runs at the same
  time in the same threads: its progress shows that separate locks do not
  exclude each other.

The wall watchdog (threads not finishing) only ever yields INCONCLUSIVE.

Calibration (unchanged tree)
----------------------------
* Falsy explicit tokens (``0``, ``''``, ``()``, ``False``, ``0.0``) are replaced
  by a generated token (``token or uuid4()``): two ``SerializableLock(0)`` are
  therefore different locks.  The statement only speaks about copies of one
  lock and about separately created locks, so the harness never creates two
  originals with the same explicit token and makes no demand either way.
* Tokens are made unique per process and case (a shared truthy token would by
  design join locks of an earlier case that are still alive).
"""
from __future__ import annotations

import copy
import itertools
import os
import pickle
import random
import sys
import threading
import time

PROP = "C53"
RULE = ("cases = (a) the complete product token kind x copy method x topology (chain/star) x number of copies 1..6 for the "
        "deterministic pairwise non-blocking-acquire checks, (b) seeded thread workloads: 1-6 copies built by random "
        "methods in chain/star/tree shape, 2-8 threads x 200 rounds on random members with 4 acquire forms, a second "
        "independent group contended at the same time; non-trivial = at least one copy and one acquire observed; "
        "distinct = distinct case descriptions; distinct interleavings = distinct sequences of thread ids entering the "
        "critical section")
ASSUMPTIONS = ["threading.Lock of CPython is a correct mutex (it protects the monitor's own counters)",
               "thread schedules are those the OS/GIL produced with yields injected; not all interleavings are explored"]
BUDGET = {"quick": 45, "thorough": 420}
FLOORS = {
    "quick": {"evaluations": 1000, "distinct_nontrivial": 1000,
              "counters": {"copies_made": 2800, "held_pair_checks": 38000, "separate_lock_checks": 7000, "free_checks": 18000,
                           "copies_made_while_held": 120, "thread_cases": 150, "critical_sections": 150000,
                           "handovers": 20000, "max_occupancy_checks": 300,
                           "lifetime_pair_checks": 2600, "lifetime_pair_checks_after_first_member_dropped": 1200},
              "sets": {"interleavings": 150}},
    "thorough": {"evaluations": 6000, "distinct_nontrivial": 6000,
                 "counters": {"copies_made": 7000, "held_pair_checks": 100000, "separate_lock_checks": 18000, "free_checks": 47000,
                              "copies_made_while_held": 3000, "thread_cases": 3000, "critical_sections": 3000000,
                              "handovers": 500000, "max_occupancy_checks": 8000,
                              "lifetime_pair_checks": 39000, "lifetime_pair_checks_after_first_member_dropped": 18000},
                 "sets": {"interleavings": 3000}},
}
EXHAUSTIVE_SPACE = ("deterministic pairwise exclusion checks for every combination of 13 token kinds x 10 copy methods x "
                    "{chain, star} x 1..6 copies (all ordered member pairs, same thread and other thread); the thread "
                    "schedules themselves are sampled, not enumerated")
LEVEL_NOTE = "trusts CPython's threading.Lock for the monitor's own bookkeeping; schedules are sampled"
CASE_TIMEOUT = 90
TIMEOUT_OK = False

TOKEN_KINDS = ("generated", "str", "int", "tuple", "nested-tuple", "bytes", "float", "frozenset",
               "zero", "empty-str", "empty-tuple", "false", "zero-float")
FALSY = ("zero", "empty-str", "empty-tuple", "false", "zero-float")
METHODS = ("pickle0", "pickle1", "pickle2", "pickle3", "pickle4", "pickle5", "cloudpickle", "deepcopy", "copy",
           "pickle-in-container")
FORMS = ("with", "acquire", "acquire-timeout", "spin")

_counter = itertools.count(1)


def _token(kind):
    u = next(_counter)
    pid = os.getpid()
    if kind == "generated":
        return None
    if kind == "str":
        return "vf-lock-%d-%d" % (pid, u)
    if kind == "int":
        return (pid << 24) + u
    if kind == "tuple":
        return ("vf", pid, u)
    if kind == "nested-tuple":
        return ("vf", (pid, ("n", u)), "x")
    if kind == "bytes":
        return b"vf-%d-%d" % (pid, u)
    if kind == "float":
        return float((pid << 24) + u) + 0.5
    if kind == "frozenset":
        return frozenset([("vf", pid, u)])
    return {"zero": 0, "empty-str": "", "empty-tuple": (), "false": False, "zero-float": 0.0}[kind]


def _roundtrip(lock, method):
    if method.startswith("pickle") and method[6:].isdigit():
        return pickle.loads(pickle.dumps(lock, protocol=int(method[6:])))
    if method == "cloudpickle":
        import cloudpickle

        return cloudpickle.loads(cloudpickle.dumps(lock))
    if method == "deepcopy":
        return copy.deepcopy(lock)
    if method == "copy":
        return copy.copy(lock)
    if method == "pickle-in-container":
        out = pickle.loads(pickle.dumps({"a": [lock], "b": (lock, 1)}))
        return out["b"][0]
    raise AssertionError(method)


def _build_group(kind, methods, topo, ncopies, rng=None):
    """Returns (members, parents): members[0] is the original and is kept alive by the caller."""
    from dask.utils import SerializableLock

    tok = _token(kind)
    orig = SerializableLock(tok) if kind != "generated" else SerializableLock()
    members = [orig]
    same_bytes = None
    for i in range(ncopies):
        m = methods[i % len(methods)]
        if topo == "chain":
            parent = members[-1]
        elif topo == "star":
            parent = orig
        elif topo == "same-bytes":
            if same_bytes is None:
                same_bytes = pickle.dumps(orig)
            members.append(pickle.loads(same_bytes))
            continue
        else:
            parent = rng.choice(members)
        members.append(_roundtrip(parent, m))
    return members


def cases(tier, seed):
    rng = random.Random(seed * 104729 + 53)
    # ---- complete sub-space: deterministic pairwise checks -------------------------
    for kind in TOKEN_KINDS:
        for m in METHODS:
            for topo in ("chain", "star"):
                for n in range(1, 7):
                    yield {"space": "exhaustive", "kind": "pairwise", "token": kind, "methods": [m], "topo": topo, "ncopies": n}
    # ---- sampled: mixed methods, trees, copies made while held ----------------------
    k = 150 if tier == "quick" else 3000
    for _ in range(k):
        yield {"kind": "pairwise", "token": rng.choice(TOKEN_KINDS),
               "methods": [rng.choice(METHODS) for _ in range(rng.randint(1, 3))],
               "topo": rng.choice(("chain", "star", "tree", "same-bytes")), "ncopies": rng.randint(1, 6),
               "while_held": rng.random() < 0.5, "tseed": rng.randrange(2 ** 31)}
    # ---- lifetimes: members (the original included) are dropped and collected between copies --------------------
    k = 400 if tier == "quick" else 6000
    for _ in range(k):
        yield {"kind": "lifetimes", "token": rng.choice(TOKEN_KINDS), "methods": [rng.choice(METHODS) for _ in range(3)],
               "steps": rng.randint(3, 9), "tseed": rng.randrange(2 ** 31), "topo": "tree", "ncopies": 0}
    # ---- thread workloads ---------------------------------------------------------
    k = 320 if tier == "quick" else 9000
    for _ in range(k):
        single = rng.random() < 0.7
        yield {"kind": "threads", "token": rng.choice(TOKEN_KINDS),
               "methods": [rng.choice(METHODS)] if single else [rng.choice(METHODS) for _ in range(3)],
               "topo": rng.choice(("chain", "star", "tree", "same-bytes")), "ncopies": rng.randint(1, 6),
               "nthreads": rng.randint(2, 8), "rounds": rng.choice((100, 200, 200, 300)),
               "forms": sorted(rng.sample(FORMS, rng.randint(1, 4))),
               "token2": rng.choice(TOKEN_KINDS), "tseed": rng.randrange(2 ** 31),
               "yield_p": rng.choice((0.3, 0.7, 1.0))}


def _token_class(kind):
    if kind in FALSY:
        return "falsy-explicit"
    return {"nested-tuple": "tuple"}.get(kind, kind)


def _via_class(m):
    if m.startswith("pickle") and m[6:].isdigit():
        return "pickle-protocol<2" if int(m[6:]) < 2 else "pickle-protocol>=2"
    return m


def _feat(case):
    ms = sorted({_via_class(m) for m in case["methods"]})
    via = ms[0] if len(ms) == 1 else "mixed"
    if case["topo"] == "same-bytes":
        via = "one-dumps-many-loads"
    return "token=%s&via=%s" % (_token_class(case["token"]), via)


class _Pool:
    """Persistent worker threads (thread creation costs milliseconds here); discarded after a watchdog."""

    def __init__(self, n=8):
        import queue

        self.jobs = [queue.SimpleQueue() for _ in range(n)]
        self.results = queue.SimpleQueue()
        self.threads = [threading.Thread(target=self._loop, args=(i,), daemon=True) for i in range(n)]
        for t in self.threads:
            t.start()

    def _loop(self, i):
        while True:
            fn = self.jobs[i].get()
            if fn is None:
                return
            try:
                self.results.put((i, True, fn()))
            except BaseException as e:  # noqa: BLE001
                self.results.put((i, False, e))

    def run(self, fns, timeout):
        """Run fns[i] on worker i concurrently; returns list of (ok, value) or None on timeout."""
        import queue

        for i, fn in enumerate(fns):
            self.jobs[i].put(fn)
        out = [None] * len(fns)
        deadline = time.time() + timeout
        for _ in fns:
            try:
                i, ok, val = self.results.get(timeout=max(0.01, deadline - time.time()))
            except queue.Empty:
                return None
            out[i] = (ok, val)
        return out


_pool = None


def _get_pool():
    global _pool
    if _pool is None:
        _pool = _Pool()
    return _pool


def _drop_pool():
    global _pool
    _pool = None


def _try_in_thread(fn):
    """Run fn() in another thread and return its result (deterministic hand-over, no contention)."""
    res = _get_pool().run([fn], 30)
    if res is None:
        from vf.core.ctx import CaseTimeout

        _drop_pool()
        raise CaseTimeout()
    ok, val = res[0]
    if not ok:
        raise val
    return val


def _pairwise(case, ctx):
    rng = random.Random(case.get("tseed", 0))
    feat = _feat(case)
    try:
        members = _build_group(case["token"], case["methods"], case["topo"], case["ncopies"], rng)
        other = _build_group(rng.choice(TOKEN_KINDS) if "tseed" in case else "generated", ["pickle5"], "star", 1, rng)
    except Exception as e:  # noqa: BLE001
        ctx.exception(e, prefix="roundtrip:" + feat)
        return
    ctx.nontrivial = True
    ctx.count("copies_made", len(members) - 1)
    ctx.op("topo:" + case["topo"])
    for m in case["methods"]:
        ctx.op("method:" + m)
    ctx.op("token:" + case["token"])
    n = len(members)
    for i in range(n):
        x = members[i]
        try:
            got = x.acquire(False)
        except Exception as e:  # noqa: BLE001
            ctx.exception(e, prefix="acquire:" + feat)
            return
        if not got:
            ctx.violation("free-lock:%s:nonblocking-acquire-failed" % feat,
                          "member %d of %d could not be acquired although nothing holds the group" % (i, n))
            continue
        try:
            extra = []
            if case.get("while_held"):
                try:
                    extra = [_roundtrip(x, case["methods"][0])]
                    ctx.count("copies_made_while_held")
                except Exception as e:  # noqa: BLE001
                    ctx.exception(e, prefix="roundtrip-while-held:" + feat)
            tj = rng.randrange(n + len(extra))
            for j, y in enumerate(members + extra):
                ctx.count("held_pair_checks")
                role = "copy-made-while-held" if j >= n else ("self" if j == i else ("original" if j == 0 else "copy"))
                holder = "original" if i == 0 else "copy"
                if y.acquire(False):
                    y.release()
                    ctx.violation("exclusion:%s:nonblocking-acquire-succeeded-while-held" % feat,
                                  "member %d (%s) acquired (non-blocking, same thread) while member %d (%s) of the same identity "
                                  "group is held; tokens %r / %r" % (j, role, i, holder, getattr(y, "token", None), getattr(x, "token", None)))
                ctx.count("held_pair_checks")
                if _try_in_thread(lambda y=y: (y.acquire(False) and (y.release() or True))):
                    ctx.violation("exclusion:%s:nonblocking-acquire-succeeded-while-held" % feat,
                                  "member %d (%s) acquired (non-blocking, other thread) while member %d (%s) is held" % (j, role, i, holder))
                if j == tj and y.acquire(True, 0.0003):
                    y.release()
                    ctx.violation("exclusion:%s:timeout-acquire-succeeded-while-held" % feat,
                                  "member %d (%s) acquired with timeout while member %d (%s) is held" % (j, role, i, holder))
            # separately created lock is not excluded
            for o in other:
                ctx.count("separate_lock_checks")
                if o.acquire(False):
                    o.release()
                else:
                    ctx.violation("separate-locks:%s:nonblocking-acquire-failed-while-other-lock-held" % feat,
                                  "a lock with token %r could not be acquired while the lock with token %r is held"
                                  % (o.token, x.token))
                if not _try_in_thread(lambda o=o: (o.acquire(False) and (o.release() or True))):
                    ctx.violation("separate-locks:%s:nonblocking-acquire-failed-while-other-lock-held" % feat,
                                  "(other thread) token %r vs held token %r" % (o.token, x.token))
        finally:
            x.release()
        # after release every member is free again
        for j, y in enumerate(members):
            ctx.count("free_checks")
            if y.acquire(False):
                y.release()
            else:
                ctx.violation("released:%s:member-still-blocked-after-release" % feat,
                              "member %d not acquirable after member %d was released" % (j, i))
    ctx.sample = {"members": n, "tokens": sorted({repr(m.token) for m in members})[:3]}


class _Group:
    def __init__(self, members):
        self.members = members
        self.mon = threading.Lock()
        self.occ = 0
        self.maxocc = 0
        self.entries = []
        self.events = []


def _section(g, tid, rng, yield_p):
    if rng.random() < yield_p:
        time.sleep(0)
    with g.mon:
        g.occ += 1
        if g.occ > g.maxocc:
            g.maxocc = g.occ
        g.entries.append(tid)
        g.events.append(tid + 1)
    if rng.random() < yield_p:
        time.sleep(0)
    with g.mon:
        g.events.append(-(tid + 1))
        g.occ -= 1


def _threads(case, ctx):
    from vf.core.ctx import CaseTimeout

    rng = random.Random(case["tseed"])
    feat = _feat(case)
    try:
        g1 = _Group(_build_group(case["token"], case["methods"], case["topo"], case["ncopies"], rng))
        g2 = _Group(_build_group(case["token2"], ["pickle5"], "star", 2, rng))
    except Exception as e:  # noqa: BLE001
        ctx.exception(e, prefix="roundtrip:" + feat)
        return
    ctx.nontrivial = True
    nthreads, rounds, forms = case["nthreads"], case["rounds"], case["forms"]
    barrier = threading.Barrier(nthreads)
    stop = threading.Event()
    problems = []
    done = [0] * nthreads

    def worker(tid):
        r = random.Random(case["tseed"] * 131 + tid)
        try:
            barrier.wait(30)
            for k in range(rounds):
                if stop.is_set():
                    return
                g = g1 if r.random() < 0.75 else g2
                lk = r.choice(g.members)
                form = r.choice(forms)
                if form == "with":
                    with lk:
                        _section(g, tid, r, case["yield_p"])
                elif form == "acquire":
                    lk.acquire()
                    try:
                        _section(g, tid, r, case["yield_p"])
                    finally:
                        lk.release()
                elif form == "acquire-timeout":
                    if not lk.acquire(True, 60):
                        problems.append("acquire(timeout=60) failed")
                        return
                    try:
                        _section(g, tid, r, case["yield_p"])
                    finally:
                        lk.release()
                else:
                    spins = 0
                    while not lk.acquire(False):
                        spins += 1
                        time.sleep(0)
                        if stop.is_set():
                            return
                    try:
                        _section(g, tid, r, case["yield_p"])
                    finally:
                        lk.release()
                done[tid] += 1
        except BaseException as e:  # noqa: BLE001
            problems.append(e)

    old = sys.getswitchinterval()
    sys.setswitchinterval(2e-5)
    try:
        res = _get_pool().run([(lambda i=i: worker(i)) for i in range(nthreads)], 60)
    finally:
        sys.setswitchinterval(old)
    if res is None:
        stop.set()
        _drop_pool()
        raise CaseTimeout()          # wall watchdog: inconclusive, never a violation
    for p in problems:
        if isinstance(p, BaseException):
            ctx.exception(p, prefix="threads:" + feat)
        else:
            raise CaseTimeout()
    ctx.count("thread_cases")
    ctx.count("threads_started", nthreads)
    for gi, g in enumerate((g1, g2)):
        ctx.count("critical_sections", len(g.entries))
        ctx.count("handovers", sum(1 for a, b in zip(g.entries, g.entries[1:]) if a != b))
        ctx.count("max_occupancy_checks")
        gfeat = feat if gi == 0 else "token=%s&via=pickle-protocol>=2" % _token_class(case["token2"])
        if g.maxocc > 1:
            ctx.violation("threads:%s:two-holders-in-critical-section" % gfeat,
                          "occupancy of the identity group reached %d with %d threads on %d members"
                          % (g.maxocc, nthreads, len(g.members)), tokens=sorted({repr(m.token) for m in g.members}))
        else:
            # the recorded history must be enter(t), leave(t), enter(u), leave(u) ...
            ev = g.events
            bad = len(ev) % 2 or any(ev[i] <= 0 or ev[i + 1] != -ev[i] for i in range(0, len(ev) - 1, 2))
            if bad:
                ctx.violation("threads:%s:overlapping-sections-in-history" % gfeat, "history %r" % (ev[:40],))
        # nothing is left held
        m0 = g.members[0]
        if m0.acquire(False):
            m0.release()
        else:
            ctx.violation("threads:%s:lock-left-held-after-all-threads-finished" % gfeat, "original not acquirable")
    if sum(done) != nthreads * rounds and not problems:
        raise CaseTimeout()
    ctx.distinct("interleavings", (nthreads, g1.entries))
    ctx.distinct("entry_prefixes", (nthreads, g1.entries[:12]))
    for f in forms:
        ctx.op("form:" + f)
    ctx.op("threads:%d" % nthreads)
    ctx.op("topo:" + case["topo"])
    ctx.op("token:" + case["token"])
    for m in case["methods"]:
        ctx.op("method:" + m)
    ctx.sample = {"threads": nthreads, "sections": len(g1.entries) + len(g2.entries), "max_occupancy": [g1.maxocc, g2.maxocc],
                  "first_entries": g1.entries[:16]}


def _lifetimes(case, ctx):
    """Copies made from survivors after earlier members - the first-created one included - were dropped and collected:
    every live member still has to exclude every other live member (a copy of a copy is a copy of the original)."""
    import gc

    from dask.utils import SerializableLock

    rng = random.Random(case["tseed"])
    feat = _feat(case)
    kind = case["token"]
    tok = _token(kind)
    live = [SerializableLock(tok) if kind != "generated" else SerializableLock()]
    born = [0]                      # creation rank of every live member (0 = the first object created for the token)
    nxt, dropped_first = 1, False
    ctx.nontrivial = True
    for step in range(case["steps"]):
        if len(live) >= 2 and rng.random() < 0.45:
            i = 0 if (not dropped_first and rng.random() < 0.5) else rng.randrange(len(live))
            if born[i] == 0:
                dropped_first = True
            del live[i], born[i]
            gc.collect()
            ctx.count("members_dropped")
        else:
            parent = rng.choice(live)
            try:
                live.append(_roundtrip(parent, rng.choice(case["methods"])))
            except Exception as e:  # noqa: BLE001
                ctx.exception(e, prefix="roundtrip:" + feat)
                return
            del parent
            born.append(nxt)
            nxt += 1
            ctx.count("copies_made")
        if len(live) < 2:
            continue
        holder = rng.randrange(len(live))
        x = live[holder]
        if not x.acquire(False):
            ctx.violation("free-lock:%s:nonblocking-acquire-failed" % feat, "live member could not be acquired although nothing holds the group")
            return
        try:
            for j, y in enumerate(live):
                ctx.count("held_pair_checks")
                ctx.count("lifetime_pair_checks")
                if dropped_first:
                    ctx.count("lifetime_pair_checks_after_first_member_dropped")
                if y.acquire(False):
                    y.release()
                    ctx.violation("exclusion:%s&earlier-member-collected:nonblocking-acquire-succeeded-while-held" % feat,
                                  "after dropping members (first-created dropped: %s) member born #%d acquired while member born #%d "
                                  "of the same identity group is held; tokens %r / %r" % (dropped_first, born[j], born[holder], y.token, x.token))
                    return
        finally:
            x.release()
    ctx.sample = {"steps": case["steps"], "live_at_end": len(live), "first_member_dropped": dropped_first}


def run_case(case, ctx):
    if case["kind"] == "pairwise":
        _pairwise(case, ctx)
    elif case["kind"] == "lifetimes":
        _lifetimes(case, ctx)
    else:
        _threads(case, ctx)


CLAIM = ("For every identity group built (original + 1-6 copies through pickle protocols 0-5, cloudpickle, copy, deepcopy, "
         "containers, one dumps loaded many times; explicit, falsy and generated tokens) every ordered pair of members was "
         "checked for exclusion (non-blocking and timeout acquire fail while the other is held, same and other thread), "
         "separately created locks were checked not to exclude each other, and under 2-8 contending threads the occupancy "
         "of the critical section never exceeded 1 in the schedules observed. Held means: no counterexample among the "
         "executions and schedules observed; schedules are sampled.")
TECHNIQUE = "runtime monitoring: occupancy counter + enter/leave history per identity group under contending threads with yield injection; deterministic pairwise non-blocking acquire checks"
PENDING = {}
