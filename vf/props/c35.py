"""C35 — map_blocks, blockwise and gufuncs see correct blocks and block locations.

Statement (fixed): map_blocks and blockwise call the user function once per output block with input blocks aligned
by block index (broadcasting size-1 block dimensions).  The block_info and block_id they pass give each block's true
chunk location and array location.  apply_gufunc equals numpy.vectorize with the same signature, and
drop_axis/new_axis/adjust_chunks metadata matches the computed result.

Monitor.  The user functions handed to dask RECORD what they receive (thread-safe list) and return a block filled
with the id of the call, so that after ONE computation of all blocks (``dask.compute(*z.to_delayed().ravel())``) the
harness knows which call produced which output block.  Every input array holds values that encode (array number,
flat element position), so a received block identifies the slice it came from.

* map_blocks (kind "map_blocks"): 1-3 arrays (fewer-dimensional ones aligned to the right, one-block dimensions
  broadcast, block sizes free because map_blocks aligns by block position only), optional scalar argument between
  them, the four signatures (plain / block_id / block_info / both), ``meta=`` or ``dtype=``, ``drop_axis``,
  ``new_axis``, ``chunks=`` (uniform or per block).  Checked: number of calls during compute == number of output
  blocks and every output block was produced by its own call; each received block equals the reference slice of the
  NumPy input for that block index (dropped axes: concatenated over the whole axis); block_id == block index;
  block_info[i] (i = position of the array among the arguments) 'shape', 'num-chunks', 'chunk-location',
  'array-location' and block_info[None] ('shape', 'num-chunks', 'chunk-location', 'array-location', 'chunk-shape',
  'dtype') equal the harness computation from .chunks; declared chunks vs the computed blocks.
  Calls made while the graph is BUILT (meta inference with zero-size inputs when only dtype= is given) are not calls
  "per output block": the record is cleared after construction, only calls during compute are counted.
* blockwise (kind "blockwise"): 1-3 arrays over index letters shared between arrays, contracted letters (missing in
  the output), new letters (new_axes), adjust_chunks (callable / int / tuple), concatenate True / False / None,
  align_arrays with differently chunked operands (expected chunks = common refinement).  "trace" mode: as above
  (with concatenate=True the function must receive the concatenation over the contracted axes, otherwise nested
  lists of blocks, nesting in the order of the array's own contracted axes); "value" mode: an einsum-like function
  (with lists of blocks it combines the blocks POSITION BY POSITION, zip semantics along every contracted letter)
  and comparison of the final result with numpy.einsum on the whole arrays.
  Contraction families (a fifth of the cases + a complete sub-space): a contracted letter shared by >= 2 operands ("pair"),
  one operand holding it in ONE block while another has >= 2 ("bcast": a length-1 axis, or with align_arrays=False one
  block of any length: block-position broadcasting), two contracted letters in one operand ("nested": lists of lists).
  list-structure facet (every call, both modes): a bare block with concatenate=True, otherwise nested lists with one level
  per contracted letter of that operand whose length is the number of blocks along the letter - a broadcast operand's one
  block is repeated at every position, so that all operands line up position by position.
* apply_gufunc (kind "gufunc"): signatures "(i)->()", "(i),(i)->()", "(i,j),(j)->(i)", "()->(k)", "(i)->(i)",
  "(i),(j)->(i,j)", "(i)->(),()", "(),()->()" with loop dimensions that broadcast, core dimensions in one chunk or
  chunked with allow_rechunk=True, axes=/axis=/keepdims, output_sizes, vectorize=True; reference
  numpy.vectorize(f, signature=...) on the arguments with their core axes moved last (NumPy's gufunc `axes` rule).
  Lazy shape/dtype/chunks vs the computed blocks with compare.blocks_mismatch.

Labels: ``<api>:<feature predicate>:<symptom>``.

Calibration: see CALIBRATION at the end of the module.
"""
from __future__ import annotations

import itertools
import random
import threading
import warnings

import numpy as np

from ..gen import arrays as A
from ..mon.compare import blocks_mismatch, compare_arrays, lazy_meta_mismatch

PROP = "C35"
RULE = ("cases = one call of da.map_blocks / da.blockwise / da.apply_gufunc described by (arrays: shapes, chunkings, alignment), "
        "function signature, and the keyword set (block_id/block_info, meta|dtype, drop_axis, new_axis, chunks, concatenate, "
        "new_axes, adjust_chunks, align_arrays, gufunc signature/axes/axis/keepdims/allow_rechunk/output_sizes). Complete part: "
        "map_blocks with block_info+block_id on all chunkings of a (3,2) array together with a broadcast (1,2)-row on all its "
        "chunkings, and blockwise 'ij,jk->ik' (concatenate True and False) on all chunkings of (2,2)x(2,2). "
        "non-trivial = some array axis split into >=2 chunks; distinct = distinct case description.")
ASSUMPTIONS = ["NumPy (slicing, einsum, vectorize) is the reference", "the recording functions are thread safe; sync scheduler, threads for a tenth"]
BUDGET = {"quick": 60, "thorough": 600}
# measured on the repaired tree (quick, 5 seeds): 2540 evaluations, ~2000 distinct non-trivial, map_blocks 972, blockwise 1088,
# gufunc 480, user function calls ~6300-6700, received blocks ~10400-10900, list structures ~7500-8300, lists-of-blocks cases ~600,
# broadcast along a contracted letter: ~275 list cases / ~100 concatenated, nested lists ~250
FLOORS = {"quick": {"evaluations": 1200, "distinct_nontrivial": 900,
                    "counters": {"map_blocks_calls": 440, "blockwise_calls": 490, "gufunc_calls": 220, "user_function_calls": 2900,
                                 "blocks_matched_to_calls": 2300, "received_blocks_checked": 4700, "block_id_checked": 700,
                                 "block_info_checked": 740, "einsum_compared": 150, "gufunc_outputs_compared": 240,
                                 "blocks_mismatch_checked": 1000, "list_structures_checked": 3400, "cases_lists_of_blocks": 260,
                                 "cases_broadcast_along_contracted_lists": 115, "cases_broadcast_along_contracted_concatenated": 40,
                                 "cases_nested_lists": 110, "received_broadcast_along_contracted": 280},
                    "max_skipped_fraction": 0.2},
          "thorough": {"evaluations": 21000, "distinct_nontrivial": 15000,
                       "counters": {"map_blocks_calls": 8000, "blockwise_calls": 8000, "gufunc_calls": 4000, "user_function_calls": 50000,
                                    "received_blocks_checked": 80000, "block_id_checked": 13000, "block_info_checked": 13000,
                                    "einsum_compared": 2500, "gufunc_outputs_compared": 4500, "blocks_mismatch_checked": 17000,
                                    "list_structures_checked": 60000, "cases_lists_of_blocks": 4500,
                                    "cases_broadcast_along_contracted_lists": 2000, "cases_nested_lists": 1900},
                       "max_skipped_fraction": 0.2}}
EXHAUSTIVE_SPACE = ("map_blocks(block_info, block_id) over all 4x2 chunkings of a (3,2) array x all 2 chunkings of a broadcast (1,2) row; "
                    "blockwise 'ij,jk->ik' with concatenate True/False over all chunkings of two (2,2) arrays with a shared j chunking; "
                    "blockwise 'ij,ij->i' (j contracted, second operand one block along j) with concatenate None/False/True, trace and "
                    "value mode, over all 8 chunkings of a (2,3) array x both chunkings of i of the (2,1) operand")
CLAIM = ("Every call of the recording user functions made by the real map_blocks/blockwise during compute was matched to its output "
         "block and compared with the harness' own block geometry (slices, block_id, block_info); gufunc results were compared with "
         "numpy.vectorize; declared chunks were compared with the computed blocks. Held = no mismatch on the executions observed.")
LEVEL_NOTE = "trusts NumPy slicing/einsum/vectorize and the harness' block geometry computed from .chunks"
TECHNIQUE = "runtime monitoring: recording user functions + block-geometry reference model; NumPy differential for gufuncs"
CASE_TIMEOUT = 60

PENDING = {}

LETTERS = "ijkl"

# which input features may appear in the label of which facet (one mechanism = one label: features that cannot
# influence a facet are left out of its label)
RELEVANT = {
    "received": ("drop_axis", "multi-array", "empty-chunk", "concatenate", "two-contracted-in-one-array", "contracted", "broadcast-axis",
                 "broadcast-along-contracted",
                 "operands-chunked-differently", "align_arrays=False"),
    "structure": ("concatenate", "broadcast-along-contracted", "two-contracted-in-one-array"),
    "block_id": ("drop_axis", "new_axis"),
    "block_info": ("drop_axis", "new_axis", "chunks", "scalar-arg"),
    "geometry": ("drop_axis", "new_axis", "chunks", "new_axes", "adjust_chunks", "operands-chunked-differently", "align_arrays=False"),
    "calls": ("drop_axis", "new_axis", "new_axes", "contracted", "concatenate"),
    "value": ("concatenate", "contracted", "two-contracted-in-one-array", "new_axes", "broadcast-axis", "broadcast-along-contracted",
              "operands-chunked-differently"),
    "exception": ("drop_axis", "new_axis", "chunks", "new_axes", "adjust_chunks", "concatenate", "contracted", "empty-chunk", "align_arrays=False"),
}


def _label(api, feats, family, facet):
    keep = [f for f in feats if f.split("=")[0] in [r.split("=")[0] for r in RELEVANT[family]] or f in RELEVANT[family]]
    return "%s:%s:%s" % (api, "&".join(keep) or "-", facet)


# ======================================================================================== generation
def _sizes(rng, n, allow_zero=False):
    pool = [1, 1, 2, 2, 3] + ([0] if allow_zero else [])
    return [rng.choice(pool) for _ in range(n)]


def _gen_map_blocks(rng):
    D = rng.choice((1, 2, 2, 3))
    nb = [rng.choice((1, 2, 2, 3)) for _ in range(D)]
    sig = rng.choice(("plain", "id", "info", "both", "both"))
    zero_ok = sig != "plain" and rng.random() < 0.2
    shared = [_sizes(rng, n, zero_ok) for n in nb]
    narr = rng.choice((1, 1, 2, 2, 3))
    arrays = []
    for i in range(narr):
        nd = D if i == 0 and rng.random() < 0.7 else rng.randint(1, D)
        ch = []
        for a in range(nd):
            j = D - nd + a
            r = rng.random()
            if nb[j] == 1 or r < 0.6:
                ch.append(list(shared[j]) if rng.random() < 0.7 else _sizes(rng, nb[j], zero_ok))
            else:
                ch.append([1] if rng.random() < 0.8 else [rng.randint(2, 3)])   # one block: broadcast by block index
        arrays.append({"chunks": ch})
    if max(len(a["chunks"]) for a in arrays) < D:
        arrays[rng.randrange(narr)]["chunks"] = [list(s) for s in shared]
    case = {"kind": "map_blocks", "arrays": arrays, "sig": sig, "meta": rng.choice(("meta", "meta", "dtype")),
            "method": narr == 1 and rng.random() < 0.3, "threads": rng.random() < 0.1, "seed": rng.randrange(2 ** 31)}
    if rng.random() < 0.25:
        case["scalar_pos"] = rng.randint(0, narr)
    r = rng.random()
    drop, new = [], []
    if r < 0.3 and D >= 2:
        drop = sorted(rng.sample(range(D), rng.randint(1, D - 1)))
        if rng.random() < 0.3:
            drop = [d - D for d in drop]
    if rng.random() < 0.25:
        nout = D - len(drop)
        new = sorted(rng.sample(range(nout + 1), 1)) if rng.random() < 0.7 else sorted(rng.sample(range(nout + 2), 2))
    if drop:
        case["drop_axis"] = drop[0] if len(drop) == 1 and rng.random() < 0.5 else drop
    if new:
        case["new_axis"] = new[0] if len(new) == 1 and rng.random() < 0.5 else new
    r = rng.random()
    if r < 0.25:
        case["chunks"] = "uniform"
    elif r < 0.4 and sig != "plain":
        case["chunks"] = "explicit"
    case["cseed"] = rng.randrange(2 ** 31)
    return case


def _force_contraction(rng, arrays, used, lchunks, out, force, align):
    """Make the case one of the contraction families: a contracted letter held by >= 2 arrays ("pair"), one of them with a
    single block along it ("bcast": length-1 axis, or with align_arrays=False one block of any length against >= 2 blocks),
    or an array with two contracted letters ("nested": lists of lists)."""
    multi = [l for l in used if len(lchunks[l]) >= 2] or list(used)
    l1 = rng.choice(multi)
    holders = [a for a in arrays if l1 in a["ind"]]
    if len(holders) < 2:
        others = [a for a in arrays if l1 not in a["ind"]]
        if not others:
            others = [{"ind": rng.choice(holders)["ind"]}]
            arrays.append(others[0])
        o = others[0]
        o["ind"] = o["ind"] + l1 if rng.random() < 0.5 else l1 + o["ind"]
        holders.append(o)
    out = [l for l in out if l != l1]
    for a in holders:
        a.get("alt", {}).pop(l1, None)
    if force == "bcast" and (align or len(lchunks[l1]) >= 2):
        b = rng.choice(holders[1:] if rng.random() < 0.7 else holders)
        if align:
            b.setdefault("alt", {})[l1] = [1]
        else:
            b.setdefault("alt", {})[l1] = [rng.choice((1, 1, 2, 3))]
    if force == "nested":
        cand = [a for a in holders if len(a["ind"]) >= 2] or holders
        a = rng.choice(cand)
        if len(a["ind"]) < 2:
            l2 = rng.choice([l for l in "ijkl" if l != l1])
            lchunks.setdefault(l2, _sizes(rng, rng.choice((2, 3))))
            a["ind"] = a["ind"] + l2 if rng.random() < 0.5 else l2 + a["ind"]
            if l2 not in used:
                used.append(l2)
        l2 = rng.choice([l for l in a["ind"] if l != l1])
        out = [l for l in out if l != l2]
    return out


def _gen_blockwise(rng, force=None):
    nl = rng.choice((1, 2, 2, 3, 3, 4)) if force is None else rng.choice((2, 2, 3, 3, 4))
    letters = LETTERS[:nl]
    # (contraction families want several blocks along most letters)
    lchunks = {l: _sizes(rng, rng.choice((1, 2, 2, 3) if force is None else (1, 2, 2, 3, 3))) for l in letters}
    narr = rng.choice((1, 2, 2, 3)) if force is None else rng.choice((2, 2, 3))
    align = rng.random() < 0.7
    arrays = []
    for i in range(narr):
        k = rng.randint(1, nl)
        ind = rng.sample(letters, k)
        a = {"ind": "".join(ind)}
        if align and rng.random() < 0.3:
            # another chunking of the same axis length: unify_chunks must refine
            l = rng.choice(ind)
            n = sum(lchunks[l])
            a["alt"] = {l: list(A.rand_comp(rng, n))}
        if rng.random() < 0.2 and narr > 1 and align:   # (without alignment the declared chunk would be ambiguous)
            l = rng.choice(ind)
            a.setdefault("alt", {})[l] = [1]     # length-1 axis: broadcast
        arrays.append(a)
    used = sorted(set("".join(a["ind"] for a in arrays)))
    # make sure every used letter appears at full length in at least one array
    for l in used:
        if all(l not in a["ind"] or a.get("alt", {}).get(l) == [1] for a in arrays):
            for a in arrays:
                if l in a["ind"]:
                    a["alt"].pop(l)
                    break
    out = [l for l in used if rng.random() < 0.65]
    rng.shuffle(out)
    if force is not None:
        out = _force_contraction(rng, arrays, used, lchunks, out, force, align)
    used = sorted(set("".join(a["ind"] for a in arrays)))
    single_any_length = any(v != [1] and len(v) == 1 and len(lchunks[l]) > 1 for a in arrays for l, v in a.get("alt", {}).items())
    case = {"kind": "blockwise", "letters": {l: lchunks[l] for l in used}, "arrays": arrays, "align": align,
            "concatenate": rng.choice((True, True, False, None)) if force is None else rng.choice((None, False, None, False, True)),
            "mode": "trace" if single_any_length else rng.choice(("trace", "trace", "value")),
            "threads": rng.random() < 0.1, "seed": rng.randrange(2 ** 31), "meta": rng.choice(("meta", "dtype"))}
    if rng.random() < 0.25:
        z = "z"
        case["new_axes"] = {z: rng.choice((1, 2, 3, [2, 2], [1, 1, 1]))}
        out.insert(rng.randint(0, len(out)), z)
    if force is not None:
        case["family"] = force
    if case["mode"] == "trace" and out and rng.random() < 0.3:
        l = rng.choice(out)
        nblocks = len(lchunks[l]) if l in lchunks else None
        how = rng.choice(("mul", "add", "int", "tuple"))
        if nblocks is not None:
            case["adjust"] = {l: [how, rng.randint(1, 3)]}
    case["out"] = "".join(out)
    return case


GUFUNCS = {
    "(i)->()": ("sum2", 1),
    "(i),(i)->()": ("dot", 1),
    "(i,j),(j)->(i)": ("matvec", 1),
    "()->(k)": ("ramp", 1),
    "(i)->(i)": ("rcumsum", 1),
    "(i),(j)->(i,j)": ("outer", 1),
    "(i)->(),()": ("minmax", 2),
    "(),()->()": ("lin", 1),
    "(i,j)->()": ("trace2", 1),
}


def _gen_gufunc(rng):
    sig = rng.choice(sorted(GUFUNCS))
    ins = sig.split("->")[0]
    in_core = [tuple(x for x in part.strip("()").split(",") if x) for part in ins.split("),(")]
    core = {"i": rng.randint(1, 4), "j": rng.randint(1, 3), "k": rng.randint(1, 3)}
    L = [rng.choice((1, 2, 3, 4)) for _ in range(rng.choice((0, 1, 1, 2)))]
    allow = rng.random() < 0.35
    lchunks = [list(A.rand_comp(rng, n)) for n in L]
    args = []
    for cd in in_core:
        k = len(L) if rng.random() < 0.6 else rng.randint(0, len(L))
        loop, lch = [], []
        for a in range(k):
            j = len(L) - k + a
            if rng.random() < 0.2:
                loop.append(1)
                lch.append([1])
            else:
                loop.append(L[j])
                lch.append(list(A.rand_comp(rng, L[j])) if allow and rng.random() < 0.5 else list(lchunks[j]))
        cch = []
        for c in cd:
            cch.append(list(A.rand_comp(rng, core[c])) if allow else [core[c]])
        args.append({"loop": loop, "loop_chunks": lch, "core_chunks": cch})
    case = {"kind": "gufunc", "sig": sig, "core": core, "args": args, "allow_rechunk": allow, "seed": rng.randrange(2 ** 31),
            "dtype": rng.choice(("int64", "int64", "float64")), "threads": rng.random() < 0.1,
            "spaces": rng.random() < 0.15, "meta": rng.choice(("output_dtypes", "output_dtypes", "meta"))}
    single = all(len(c) <= 1 for c in in_core) and len({c for c in in_core if c}) == 1
    r = rng.random()
    if sig in ("(i)->()", "(i),(i)->()", "(i)->(i)", "(i)->(),()") and r < 0.35 and single:
        nd_min = min(len(a["loop"]) for a in args) + 1
        case["axis"] = rng.randrange(-nd_min, 0)
        if sig in ("(i)->()", "(i)->(),()") and rng.random() < 0.5:
            case["keepdims"] = True
    elif r < 0.6 and any(in_core) and sig != "()->(k)":
        axes = []
        for a, cd in zip(args, in_core):
            nd = len(a["loop"]) + len(cd)
            axes.append(rng.sample(range(-nd, 0), len(cd)))
        case["axes_in"] = axes
        if sig in ("(i)->()", "(i,j)->()") and rng.random() < 0.4:
            case["keepdims"] = True
    return case


def cases(tier, seed):
    rng = random.Random(seed * 7243 + 35)
    # ---- complete sub-spaces
    for c0 in A.all_chunkings((3, 2)):
        for c1 in A.all_chunkings((1, 2)):
            if len(c1[1]) not in (1, len(c0[1])):
                continue
            yield {"space": "exhaustive", "kind": "map_blocks", "arrays": [{"chunks": [list(c) for c in c0]}, {"chunks": [list(c) for c in c1]}],
                   "sig": "both", "meta": "meta", "method": False, "threads": False, "seed": 1, "cseed": 1}
    for ci in A.compositions(2):
        for cj in A.compositions(2):
            for ck in A.compositions(2):
                for conc in (True, False):
                    yield {"space": "exhaustive", "kind": "blockwise", "letters": {"i": list(ci), "j": list(cj), "k": list(ck)},
                           "arrays": [{"ind": "ij"}, {"ind": "jk"}], "align": True, "concatenate": conc, "mode": "trace", "out": "ik",
                           "threads": False, "seed": 1, "meta": "meta"}
                    yield {"space": "exhaustive", "kind": "blockwise", "letters": {"i": list(ci), "j": list(cj), "k": list(ck)},
                           "arrays": [{"ind": "ij"}, {"ind": "jk"}], "align": True, "concatenate": conc, "mode": "value", "out": "ik",
                           "threads": False, "seed": 1, "meta": "meta"}
    # blockwise 'ij,ij->i': j contracted, y broadcast along j (one block), lists of blocks / concatenation
    for c0 in A.all_chunkings((2, 3)):
        for ci in ((2,), (1, 1)):
            for conc in (None, False, True):
                for mode in ("trace", "value"):
                    yield {"space": "exhaustive", "kind": "blockwise", "letters": {"i": list(c0[0]), "j": list(c0[1])},
                           "arrays": [{"ind": "ij"}, {"ind": "ij", "alt": {"i": list(ci), "j": [1]}}], "align": True, "concatenate": conc,
                           "mode": mode, "out": "i", "threads": False, "seed": 2, "meta": "meta", "family": "bcast"}
    n = 2400 if tier == "quick" else 45000
    for i in range(n):
        r = i % 10
        if r < 4:
            yield _gen_map_blocks(rng)
        elif r < 6:
            yield _gen_blockwise(rng)
        elif r < 8:
            yield _gen_blockwise(rng, force=("pair", "bcast", "bcast", "nested")[(i // 10) % 4])
        else:
            yield _gen_gufunc(rng)


# ======================================================================================== recording
class Recorder:
    def __init__(self):
        self.lock = threading.Lock()
        self.calls = []
        self.enabled = True

    def add(self, args, kw):
        if not self.enabled:
            return -1
        with self.lock:
            cid = len(self.calls) + 1
            self.calls.append({"id": cid, "args": args, "kw": kw, "thread": threading.get_ident()})
            return cid

    def clear(self):
        with self.lock:
            self.calls = []


def _copy(a):
    if isinstance(a, (list, tuple)):
        return [_copy(x) for x in a]
    if isinstance(a, np.ndarray):
        return a.copy()
    return a


def _deepfirst(a):
    while isinstance(a, (list, tuple)):
        a = a[0]
    return a


def coded(i, shape):
    """Array number i whose values encode the flat element position (unique across arrays)."""
    n = int(np.prod(shape)) if len(shape) else 1
    return (np.arange(n, dtype=np.int64) + 100000 * (i + 1)).reshape(shape)


def _offsets(chunks):
    return [np.concatenate([[0], np.cumsum(cs)]).astype(int).tolist() for cs in chunks]


def _same(a, b):
    a, b = np.asarray(a), np.asarray(b)
    return a.shape == b.shape and a.dtype == b.dtype and bool(np.array_equal(a, b))


# ======================================================================================== map_blocks
def _run_map_blocks(case, ctx):
    import dask
    import dask.array as da

    arrays_desc = case["arrays"]
    D = max(len(a["chunks"]) for a in arrays_desc)
    nps, das = [], []
    for i, a in enumerate(arrays_desc):
        ch = tuple(tuple(c) for c in a["chunks"])
        x = coded(i, tuple(sum(c) for c in ch))
        nps.append(x)
        das.append(da.from_array(x, chunks=ch))
    ctx.nontrivial = any(A.has_split(d.chunks) for d in das)
    drop = case.get("drop_axis", [])
    drop_l = [drop] if isinstance(drop, int) else list(drop)
    drop_n = sorted(d % D for d in drop_l)
    new = case.get("new_axis", [])
    new_l = [new] if isinstance(new, int) else list(new)
    sig = case["sig"]
    feats = []
    if drop_l:
        feats.append("drop_axis")
    if new_l:
        feats.append("new_axis")
    if case.get("chunks"):
        feats.append("chunks=" + case["chunks"])
    if len(arrays_desc) > 1:
        feats.append("multi-array")
    if "scalar_pos" in case:
        feats.append("scalar-arg")
    if any(0 in c for a in arrays_desc for c in a["chunks"]):
        feats.append("empty-chunk")
    for ft in feats or ["no-keywords"]:
        ctx.op("map_blocks:" + ft)
    ctx.op("map_blocks:sig=" + sig)

    def L(family, facet):
        return _label("map_blocks", feats, family, facet)

    # ---- geometry in the D-dimensional frame (labels: position j of the frame) ----------------------
    # for every frame position: the chunks that define the output = first array (argument order) with most blocks
    def_chunks, def_chunks_owner = {}, []     # frame position -> (chunks, index of the defining array); offsets per array
    for d in das:
        off = D - d.ndim
        for a, c in enumerate(d.chunks):
            j = off + a
            if j not in def_chunks or len(c) > len(def_chunks[j][0]):
                def_chunks[j] = (c, len(def_chunks_owner))
        def_chunks_owner.append(off)
    kept = [j for j in range(D) if j not in drop_n]          # frame positions that survive
    crng = random.Random(case.get("cseed", 0))
    out_labels = list(kept)                                   # labels of output dims; new axes get ("new", n)
    for ax in sorted(new_l):
        out_labels.insert(ax, ("new", ax))
    out_nd = len(out_labels)
    base_chunks = []
    for lab in out_labels:
        base_chunks.append((1,) if isinstance(lab, tuple) else tuple(def_chunks[lab][0]))
    chunks_kw = None
    out_chunks = list(base_chunks)
    if case.get("chunks") == "uniform":
        chunks_kw = tuple(crng.randint(1, 3) for _ in range(out_nd))
        out_chunks = [(c,) * len(b) for c, b in zip(chunks_kw, base_chunks)]
    elif case.get("chunks") == "explicit":
        chunks_kw = tuple(tuple(crng.randint(1, 3) for _ in b) for b in base_chunks)
        out_chunks = list(chunks_kw)
    out_chunks = tuple(tuple(int(c) for c in cs) for cs in out_chunks)
    out_numblocks = tuple(len(c) for c in out_chunks)
    out_offs = _offsets(out_chunks)
    nargs_arrays = len(das)
    spos = case.get("scalar_pos")
    SCALAR = 12345

    rec = Recorder()
    explicit_shape = case.get("chunks") == "explicit"

    def body(args, kw):
        cid = rec.add(_copy(list(args)), dict(kw))
        blocks = [a for p, a in enumerate(args) if p != spos] if spos is not None else list(args)
        if chunks_kw is not None and not explicit_shape:
            shape = tuple(chunks_kw)
        elif explicit_shape:
            bid = kw.get("block_id")
            if bid is None and kw.get("block_info") is not None:
                bid = kw["block_info"][None]["chunk-location"]
            if bid is None:   # meta inference call at graph construction
                shape = (0,) * out_nd
            else:
                shape = tuple(out_chunks[a][b] for a, b in enumerate(bid))
        else:
            shape = []
            for lab in out_labels:
                if isinstance(lab, tuple):
                    shape.append(1)
                    continue
                ai = def_chunks[lab][1]
                shape.append(np.shape(blocks[ai])[lab - def_chunks_owner[ai]])
            shape = tuple(shape)
        return np.full(shape, cid, dtype=np.int64)

    if sig == "plain":
        def f(*blocks):
            return body(blocks, {})
    elif sig == "id":
        def f(*blocks, block_id=None):
            return body(blocks, {"block_id": block_id})
    elif sig == "info":
        def f(*blocks, block_info=None):
            return body(blocks, {"block_info": block_info})
    else:
        def f(*blocks, block_id=None, block_info=None):
            return body(blocks, {"block_id": block_id, "block_info": block_info})

    call_args = list(das)
    if spos is not None:
        call_args.insert(spos, SCALAR)
    kw = {}
    if case["meta"] == "meta":
        kw["meta"] = np.empty((0,) * out_nd, dtype=np.int64)
    else:
        kw["dtype"] = np.int64
    if "drop_axis" in case:
        kw["drop_axis"] = case["drop_axis"]
    if "new_axis" in case:
        kw["new_axis"] = case["new_axis"]
    if chunks_kw is not None:
        kw["chunks"] = chunks_kw
    try:
        if case.get("method") and spos != 0:
            z = call_args[0].map_blocks(f, *call_args[1:], **kw)
        else:
            z = da.map_blocks(f, *call_args, **kw)
    except NotImplementedError as ex:
        ctx.unsupported(str(ex))
        return
    except Exception as ex:  # noqa: BLE001
        ctx.exception(ex, prefix=L("exception", "build"))
        return
    rec.clear()    # calls made for meta inference while BUILDING are not calls per output block

    # ---- declared metadata -------------------------------------------------------------------------
    ctx.count("map_blocks_calls")
    if tuple(z.chunks) != out_chunks:
        ctx.violation(L("geometry", "declared-chunks"), "declared chunks %s, harness expects %s" % (z.chunks, out_chunks))
        return
    # ---- ONE computation of every block ---------------------------------------------------------------
    idxs = list(itertools.product(*[range(n) for n in out_numblocks]))
    try:
        blks = dask.compute(*list(z.to_delayed().ravel()), scheduler="threads" if case.get("threads") else "sync")
    except Exception as ex:  # noqa: BLE001
        ctx.exception(ex, prefix=L("exception", "compute"))
        return
    calls = list(rec.calls)
    ctx.count("user_function_calls", len(calls))
    if len(calls) != len(idxs):
        ctx.violation(L("calls", "call-count"), "%d calls during compute for %d output blocks" % (len(calls), len(idxs)))
        return
    by_id = {c["id"]: c for c in calls}
    owner = {}
    for idx, blk in zip(idxs, blks):
        blk = np.asarray(blk)
        decl = tuple(out_chunks[a][b] for a, b in enumerate(idx))
        if blk.shape != decl:
            ctx.violation(L("geometry", "block-shape"), "block %s has shape %s, chunks declare %s" % (idx, blk.shape, decl))
            return
        if blk.dtype != z.dtype:
            ctx.violation(L("geometry", "block-dtype"), "block %s dtype %s lazy %s" % (idx, blk.dtype, z.dtype))
            return
        if blk.size:
            ids = np.unique(blk)
            if len(ids) != 1 or int(ids[0]) not in by_id:
                ctx.violation(L("calls", "block-not-from-one-call"), "block %s holds call ids %s" % (idx, ids.tolist()))
                return
            owner[idx] = by_id[int(ids[0])]
    # empty output blocks cannot carry the id: match them through the block id the function was told (sig != plain)
    free = [c for c in calls if c["id"] not in {o["id"] for o in owner.values()}]
    for idx in idxs:
        if idx in owner:
            continue
        cand = [c for c in free if _told_id(c) == idx]
        if len(cand) != 1:
            ctx.violation(L("calls", "call-per-block"), "no unique call for the empty output block %s (told ids %s)" % (idx, [_told_id(c) for c in free]))
            return
        owner[idx] = cand[0]
        free.remove(cand[0])
    if len({o["id"] for o in owner.values()}) != len(idxs):
        ctx.violation(L("calls", "call-per-block"), "some call produced two output blocks")
        return
    ctx.count("blocks_matched_to_calls", len(idxs))

    # ---- what each call received ------------------------------------------------------------------------
    in_offs = [_offsets(d.chunks) for d in das]
    for idx in idxs:
        call = owner[idx]
        pos_of = {lab: p for p, lab in enumerate(out_labels) if not isinstance(lab, tuple)}
        args = call["args"]
        if len(args) != len(call_args):
            ctx.violation(L("received", "argument-count"), "function received %d positional arguments, %d were passed" % (len(args), len(call_args)))
            return
        ai = 0
        exp_info = {}
        for p, arg in enumerate(args):
            if spos is not None and p == spos:
                if arg != SCALAR:
                    ctx.violation(L("received", "scalar-argument"), "scalar argument arrived as %r" % (arg,))
                    return
                continue
            d, x = das[ai], nps[ai]
            off = D - d.ndim
            sl, loc, aloc, nchunks = [], [], [], []
            for a in range(d.ndim):
                j = off + a
                nblk = len(d.chunks[a])
                if j in drop_n:
                    sl.append(slice(0, x.shape[a]))
                    loc.append(0)
                    aloc.append((0, x.shape[a]))
                    nchunks.append(1)
                    continue
                b = idx[pos_of[j]] if nblk > 1 else 0
                sl.append(slice(in_offs[ai][a][b], in_offs[ai][a][b + 1]))
                loc.append(b)
                aloc.append((in_offs[ai][a][b], in_offs[ai][a][b + 1]))
                nchunks.append(nblk)
            expect = x[tuple(sl)]
            ctx.count("received_blocks_checked")
            if not _same(arg, expect):
                what = "dropped-axis-block" if any((off + a) in drop_n for a in range(d.ndim)) else \
                    ("broadcast-block" if any(len(c) == 1 and out_numblocks[pos_of[off + a]] > 1 for a, c in enumerate(d.chunks) if (off + a) in pos_of) else "aligned-block")
                ctx.violation(L("received", "received-" + what),
                              "output block %s: array %d received shape %s first %s, expected slice %s" % (idx, ai, np.shape(arg), np.ravel(arg)[:1].tolist(), sl))
                return
            exp_info[p] = {"shape": tuple(x.shape), "num-chunks": tuple(nchunks), "chunk-location": tuple(loc), "array-location": aloc}
            ai += 1
        kwr = call["kw"]
        if sig in ("id", "both"):
            ctx.count("block_id_checked")
            bid = kwr.get("block_id")
            if bid is None or tuple(int(b) for b in bid) != tuple(idx):
                ctx.violation(L("block_id", "block_id"), "output block %s was told block_id=%r" % (idx, bid))
                return
        if sig in ("info", "both"):
            ctx.count("block_info_checked")
            info = kwr.get("block_info")
            if not isinstance(info, dict):
                ctx.violation(L("block_info", "block_info-missing"), "block_info=%r" % (info,))
                return
            exp_info[None] = {"shape": tuple(sum(c) for c in out_chunks), "num-chunks": out_numblocks, "chunk-location": tuple(idx),
                              "array-location": [(out_offs[a][b], out_offs[a][b + 1]) for a, b in enumerate(idx)],
                              "chunk-shape": tuple(out_chunks[a][b] for a, b in enumerate(idx))}
            if case["meta"] == "dtype":   # Calibration: with meta= only, dask passes dtype=None (not part of the statement)
                exp_info[None]["dtype"] = np.dtype("int64")
            if set(info.keys()) != set(exp_info.keys()):
                ctx.violation(L("block_info", "block_info-keys"), "block_info keys %r, expected %r" % (sorted(map(str, info)), sorted(map(str, exp_info))))
                return
            for key, ee in exp_info.items():
                got = info[key]
                for field, ev in ee.items():
                    gv = got.get(field) if isinstance(got, dict) else None
                    if not _info_eq(field, gv, ev):
                        ctx.violation(L("block_info", "block_info[%s][%s]" % ("None" if key is None else "input", field)),
                                      "output block %s: block_info[%r][%r] = %r, expected %r" % (idx, key, field, gv, ev))
                        return
    # ---- lazy metadata vs computed blocks (recorder off: f returns -1 everywhere) --------------------------
    rec.enabled = False
    try:
        m = blocks_mismatch(z)
    except Exception as ex:  # noqa: BLE001
        ctx.exception(ex, prefix=L("exception", "blocks"))
        return
    ctx.count("blocks_mismatch_checked")
    if m:
        ctx.violation(L("geometry", m[0]), m[1])
        return
    ctx.sample = {"chunks_in": [str(d.chunks) for d in das], "out_chunks": str(out_chunks), "calls": len(calls), "kw": sorted(kw)}


def _told_id(call):
    kw = call["kw"]
    if kw.get("block_id") is not None:
        return tuple(int(b) for b in kw["block_id"])
    if kw.get("block_info") is not None:
        try:
            return tuple(int(b) for b in kw["block_info"][None]["chunk-location"])
        except Exception:  # noqa: BLE001
            return None
    return None


def _info_eq(field, got, exp):
    try:
        if field == "dtype":
            return np.dtype(got) == exp
        if field == "array-location":
            return [tuple(int(v) for v in p) for p in got] == [tuple(int(v) for v in p) for p in exp]
        return tuple(int(v) for v in got) == tuple(int(v) for v in exp)
    except Exception:  # noqa: BLE001
        return False


# ======================================================================================== blockwise
def _refine(chunkings):
    """Common refinement of several chunkings of the same axis (what aligning arrays must produce)."""
    cuts = set()
    for c in chunkings:
        cuts |= set(np.cumsum(c).tolist())
    cuts = sorted(cuts | {0})
    return tuple(b - a for a, b in zip(cuts, cuts[1:]))


def _nest_concat(a, axes):
    """Concatenate a nested list of blocks (nesting order = axes order) into one array."""
    if not isinstance(a, (list, tuple)):
        return np.asarray(a)
    return np.concatenate([_nest_concat(x, axes[1:]) for x in a], axis=axes[0])


def _run_blockwise(case, ctx):
    import dask
    import dask.array as da

    letters = {l: tuple(c) for l, c in case["letters"].items()}
    out = case["out"]
    new_axes = {k: (tuple(v) if isinstance(v, list) else v) for k, v in case.get("new_axes", {}).items()}
    conc = case["concatenate"]
    mode = case["mode"]
    nps, das, inds = [], [], []
    for i, a in enumerate(case["arrays"]):
        ind = a["ind"]
        ch = tuple(tuple(a.get("alt", {}).get(l, letters[l])) for l in ind)
        shape = tuple(sum(c) for c in ch)
        x = coded(i, shape) if mode == "trace" else A.rand_data(case["seed"] + i, shape, "int64", special=False)
        nps.append(x)
        das.append(da.from_array(x, chunks=ch))
        inds.append(ind)
    ctx.nontrivial = any(A.has_split(d.chunks) for d in das)
    contracted = sorted({l for ind in inds for l in ind} - set(out))
    nblk = {l: max(len(d.chunks[ind.index(l)]) for d, ind in zip(das, inds) if l in ind) for l in letters}

    def bcast(ai, a):
        """argument ai is broadcast along its axis a: aligned operands broadcast a length-1 axis, un-aligned ones (block
        positions only) any axis held in one block while another operand has several blocks"""
        l = inds[ai][a]
        if case["align"]:
            return nps[ai].shape[a] == 1 and sum(letters[l]) != 1
        return len(das[ai].chunks[a]) == 1 and nblk[l] > 1

    # ---- expected unified chunks per letter ------------------------------------------------------------------
    uni = {}
    differing = False
    for l in letters:
        cands = [d.chunks[ind.index(l)] for ai, (d, ind) in enumerate(zip(das, inds)) if l in ind and not bcast(ai, ind.index(l))
                 and (d.shape[ind.index(l)] > 1 or not case["align"])]
        if not cands:
            cands = [d.chunks[ind.index(l)] for d, ind in zip(das, inds) if l in ind]
        if len(set(cands)) > 1:
            differing = True
        uni[l] = _refine(cands) if case["align"] else max(cands, key=len)
    if not case["align"] and differing:
        # without alignment the operands must already agree (same number of blocks or one block)
        for l in letters:
            ns = {len(d.chunks[ind.index(l)]) for d, ind in zip(das, inds) if l in ind}
            if len(ns - {1}) > 1:
                ctx.reject("align_arrays=False with different numbers of blocks is a usage error")
                return
    feats = ["concatenate=%s" % conc]
    if contracted:
        feats.append("contracted")
        if any(sum(1 for l in ind if l in contracted) >= 2 for ind in inds):
            feats.append("two-contracted-in-one-array")
    if new_axes:
        feats.append("new_axes")
    if case.get("adjust"):
        feats.append("adjust_chunks=" + list(case["adjust"].values())[0][0])
    if differing:
        feats.append("operands-chunked-differently")
    if not case["align"]:
        feats.append("align_arrays=False")
    if any(bcast(ai, a) for ai, ind in enumerate(inds) for a in range(len(ind))):
        feats.append("broadcast-axis")
        if any(bcast(ai, a) and l in contracted for ai, ind in enumerate(inds) for a, l in enumerate(ind)):
            feats.append("broadcast-along-contracted")
            ctx.count("cases_broadcast_along_contracted" + ("_lists" if conc is not True else "_concatenated"))
    if conc is not True and any(sum(1 for l in ind if l in contracted) >= 2 for ind in inds):
        ctx.count("cases_nested_lists")
    if conc is not True and contracted:
        ctx.count("cases_lists_of_blocks")
    for ft in feats:
        ctx.op("blockwise:" + ft)
    ctx.op("blockwise:mode=" + mode)

    def L(family, facet):
        return _label("blockwise", feats, family, facet)

    # ---- output geometry -------------------------------------------------------------------------------------
    adjust = case.get("adjust") or {}

    def adj(l, n):
        if l not in adjust:
            return n
        how, v = adjust[l]
        return {"mul": n * v, "add": n + v, "int": v, "tuple": v}[how]

    out_chunks = []
    for l in out:
        if l in new_axes:
            v = new_axes[l]
            base = v if isinstance(v, tuple) else (v,)
        else:
            base = uni[l]
        out_chunks.append(tuple(adj(l, n) for n in base))
    out_chunks = tuple(out_chunks)
    out_numblocks = tuple(len(c) for c in out_chunks)
    adjust_kw = None
    if adjust:
        adjust_kw = {}
        for l, (how, v) in adjust.items():
            nb = len(new_axes[l]) if (l in new_axes and isinstance(new_axes[l], tuple)) else (1 if l in new_axes else len(uni[l]))
            adjust_kw[l] = {"mul": (lambda n, v=v: n * v), "add": (lambda n, v=v: n + v), "int": v, "tuple": (v,) * nb}[how]

    rec = Recorder()

    # for every output letter: an argument that holds it at full length (not as a broadcast length-1 axis)
    definer = {}
    for l in out:
        if l in new_axes:
            continue
        for ai, (x, ind) in enumerate(zip(nps, inds)):
            if l in ind and x.shape[ind.index(l)] == sum(uni[l]) and not bcast(ai, ind.index(l)):
                definer[l] = (ai, ind.index(l))
                break

    def f(*args):
        cid = rec.add(_copy(list(args)), {})
        if mode == "value":
            spec = ",".join(inds) + "->" + "".join(l for l in out if l not in new_axes)
            if conc is True or not contracted:
                r = np.einsum(spec, *[np.asarray(a) for a in args])
            else:
                # lists of blocks: combine them POSITION BY POSITION (zip semantics along every contracted letter)
                clets = [[l for l in ind if l in contracted] for ind in inds]
                length = {}
                for arg, cl in zip(args, clets):
                    node = arg
                    for l in cl:
                        n = len(node) if isinstance(node, (list, tuple)) else 1
                        length[l] = min(length.get(l, n), n)
                        node = node[0] if isinstance(node, (list, tuple)) and len(node) else node
                r = 0
                for posn in itertools.product(*[range(length[l]) for l in contracted]):
                    at = dict(zip(contracted, posn))
                    ops = []
                    for arg, cl in zip(args, clets):
                        node = arg
                        for l in cl:
                            node = node[at[l]]
                        ops.append(np.asarray(node))
                    r = r + np.einsum(spec, *ops)
            for p, l in enumerate(out):
                if l in new_axes:
                    v = new_axes[l]
                    r = np.repeat(np.expand_dims(r, p), v[0] if isinstance(v, tuple) else v, axis=p)
            return np.asarray(r, dtype=np.int64)
        shape = []
        for l in out:
            if l in new_axes:
                v = new_axes[l]
                n = v[0] if isinstance(v, tuple) else v
            else:
                ai, ax = definer[l]
                n = np.shape(_deepfirst(args[ai]))[ax]
            shape.append(adj(l, n))
        return np.full(tuple(shape), cid, dtype=np.int64)

    bargs = []
    for d, ind in zip(das, inds):
        bargs += [d, ind]
    kw = {"concatenate": conc, "align_arrays": case["align"]}
    if case["meta"] == "meta":
        kw["meta"] = np.empty((0,) * len(out), dtype=np.int64)
    else:
        kw["dtype"] = np.int64
    if new_axes:
        kw["new_axes"] = dict(new_axes)
    if adjust_kw:
        kw["adjust_chunks"] = adjust_kw
    try:
        z = da.blockwise(f, out, *bargs, **kw)
    except NotImplementedError as ex:
        ctx.unsupported(str(ex))
        return
    except Exception as ex:  # noqa: BLE001
        ctx.exception(ex, prefix=L("exception", "build"))
        return
    rec.clear()
    ctx.count("blockwise_calls")
    if tuple(z.chunks) != out_chunks:
        ctx.violation(L("geometry", "declared-chunks"), "declared chunks %s, harness expects %s" % (z.chunks, out_chunks))
        return
    idxs = list(itertools.product(*[range(n) for n in out_numblocks]))
    try:
        blks = dask.compute(*list(z.to_delayed().ravel()), scheduler="threads" if case.get("threads") else "sync")
    except Exception as ex:  # noqa: BLE001
        ctx.exception(ex, prefix=L("exception", "compute"))
        return
    calls = list(rec.calls)
    ctx.count("user_function_calls", len(calls))
    if len(calls) != len(idxs):
        ctx.violation(L("calls", "call-count"), "%d calls during compute for %d output blocks" % (len(calls), len(idxs)))
        return
    # ---- structure every call received: a bare block, or (concatenate None/False) nested lists with one level per contracted
    # letter of that argument, in the argument's own axis order, each level as long as the number of blocks along that letter
    for call in calls:
        for ai, (arg, ind) in enumerate(zip(call["args"], inds)):
            want = () if conc is True else tuple(len(uni[l]) for l in ind if l in contracted)
            got = _list_shape(arg)
            ctx.count("list_structures_checked")
            if got != want:
                ctx.violation(L("structure", "list-structure"),
                              "argument %d (%s) arrived as nested lists of lengths %s, expected %s (blocks per contracted letter %s)"
                              % (ai, ind, got, want, {l: len(uni[l]) for l in contracted}))
                return
    for idx, blk in zip(idxs, blks):
        decl = tuple(out_chunks[a][b] for a, b in enumerate(idx))
        if np.shape(blk) != decl:
            ctx.violation(L("geometry", "block-shape"), "block %s has shape %s, chunks declare %s" % (idx, np.shape(blk), decl))
            return
    if mode == "value":
        ctx.count("einsum_compared")
        whole = np.block(_nested_blocks(blks, out_numblocks)) if out else np.asarray(blks[0])
        spec = ",".join(inds) + "->" + "".join(l for l in out if l not in new_axes)
        e = np.einsum(spec, *nps)
        for p, l in enumerate(out):
            if l in new_axes:
                v = new_axes[l]
                e = np.repeat(np.expand_dims(e, p), sum(v) if isinstance(v, tuple) else v, axis=p)
        m = compare_arrays(whole, np.asarray(e, dtype=np.int64), exact=True)
        if m:
            ctx.violation(L("value", "einsum-" + m[0]), m[1])
            return
    else:
        def l_has_bcast_contracted(ind, ai):
            return any(bcast(ai, a) and l in contracted for a, l in enumerate(ind))

        by_id = {c["id"]: c for c in calls}
        uoffs = {l: np.concatenate([[0], np.cumsum(c)]).astype(int).tolist() for l, c in uni.items()}
        seen = set()
        for idx, blk in zip(idxs, blks):
            ids = np.unique(np.asarray(blk))
            if len(ids) != 1 or int(ids[0]) not in by_id or int(ids[0]) in seen:
                ctx.violation(L("calls", "block-not-from-its-own-call"), "block %s holds call ids %s" % (idx, ids.tolist()))
                return
            seen.add(int(ids[0]))
            call = by_id[int(ids[0])]
            pos = {l: idx[p] for p, l in enumerate(out)}
            for ai, (arg, ind, x, d) in enumerate(zip(call["args"], inds, nps, das)):
                # expected: per axis either the block of the output position, block 0 for a broadcast (length-1) axis,
                # or all blocks for a contracted letter
                def axis_blocks(a, l, ai=ai):
                    if bcast(ai, a):
                        # the one block; in a list of blocks it is repeated at every position of the contracted letter
                        return [(0, x.shape[a])] * (len(uni[l]) if (l in contracted and conc is not True) else 1)
                    o = uoffs[l]
                    if l in contracted:
                        return [(o[b], o[b + 1]) for b in range(len(uni[l]))]
                    return [(o[pos[l]], o[pos[l] + 1])]
                per_axis = [axis_blocks(a, l) for a, l in enumerate(ind)]
                caxes = [a for a, l in enumerate(ind) if l in contracted]
                ctx.count("received_blocks_checked")
                if l_has_bcast_contracted(ind, ai):
                    ctx.count("received_broadcast_along_contracted")
                if conc is True or not caxes:
                    sl = tuple(slice(p[0][0], p[-1][1]) for p in per_axis)
                    ok = isinstance(arg, np.ndarray) and _same(arg, x[sl])
                    why = "expected the concatenation %s" % (sl,)
                else:
                    def build(level, fixed):
                        if level == len(caxes):
                            sl = tuple(slice(*(fixed[a] if a in fixed else per_axis[a][0])) for a in range(len(ind)))
                            return x[sl]
                        a = caxes[level]
                        return [build(level + 1, {**fixed, a: p}) for p in per_axis[a]]
                    expect = build(0, {})
                    ok = _nested_same(arg, expect)
                    why = "expected nested lists over the contracted axes %s" % (caxes,)
                if not ok:
                    kind = "contracted-blocks" if caxes else ("broadcast-block" if any(bcast(ai, a) for a in range(len(ind))) else "aligned-block")
                    ctx.violation(L("received", "received-" + kind),
                                  "output block %s: argument %d (%s) is %s; %s" % (idx, ai, ind, _describe(arg), why))
                    return
        ctx.count("blocks_matched_to_calls", len(idxs))
    rec.enabled = False
    if mode == "trace":
        try:
            m = blocks_mismatch(z)
        except Exception as ex:  # noqa: BLE001
            ctx.exception(ex, prefix=L("exception", "blocks"))
            return
        ctx.count("blocks_mismatch_checked")
        if m:
            ctx.violation(L("geometry", m[0]), m[1])
            return
    ctx.sample = {"inds": inds, "out": out, "chunks_in": [str(d.chunks) for d in das], "out_chunks": str(out_chunks), "calls": len(calls)}


def _list_shape(a):
    """Lengths of the nested lists an argument arrived as (() for a bare block); None if ragged."""
    if not isinstance(a, (list, tuple)):
        return ()
    subs = {_list_shape(x) for x in a}
    if len(subs) > 1 or None in subs:
        return None
    return (len(a),) + (subs.pop() if subs else ())


def _nested_blocks(flat, numblocks):
    arr = np.empty(len(flat), dtype=object)
    for i, b in enumerate(flat):
        arr[i] = np.asarray(b)
    return arr.reshape(numblocks).tolist()


def _nested_same(a, e):
    if isinstance(e, list):
        return isinstance(a, (list, tuple)) and len(a) == len(e) and all(_nested_same(x, y) for x, y in zip(a, e))
    return isinstance(a, np.ndarray) and _same(a, e)


def _describe(a):
    if isinstance(a, (list, tuple)):
        return "[%s]" % ", ".join(_describe(x) for x in a[:4])
    return "array%s@%s" % (np.shape(a), np.ravel(a)[:1].tolist())


# ======================================================================================== gufunc
def _gu_funcs(K):
    def sum2(x):
        return x.sum() * 2 + x[0]

    def dot(x, y):
        return (x * y).sum() + x[0] - y[-1]

    def matvec(m, v):
        return m @ v + m[:, 0]

    def ramp(s):
        return s + np.arange(K) * 3

    def rcumsum(x):
        return np.cumsum(x[::-1])

    def outer(x, y):
        return np.outer(x, y) + x[:, None]

    def minmax(x):
        return x.min(), x.max() * 2

    def lin(a, b):
        return a * 10 + b

    def trace2(m):
        return (m * (np.arange(m.shape[0])[:, None] + 1)).sum() + m[0, -1]

    return locals()


def _run_gufunc(case, ctx):
    import dask
    import dask.array as da

    sig = case["sig"]
    fname, nout = GUFUNCS[sig]
    core = case["core"]
    f = _gu_funcs(core["k"])[fname]
    ins, outs = sig.split("->")
    in_core = [tuple(x for x in part.strip("()").split(",") if x) for part in ins.split("),(")]
    out_core = [tuple(x for x in part.strip("()").split(",") if x) for part in outs.split("),(")]
    dt = case["dtype"]
    canon, actual, dargs = [], [], []
    axes_in = case.get("axes_in")
    axis = case.get("axis")
    keepdims = bool(case.get("keepdims"))
    for i, (a, cd) in enumerate(zip(case["args"], in_core)):
        shape = tuple(a["loop"]) + tuple(core[c] for c in cd)
        chunks = [tuple(c) for c in a["loop_chunks"]] + [tuple(c) for c in a["core_chunks"]]
        x = A.rand_data(case["seed"] + i, shape, dt, special=False)
        if dt == "float64":
            x = np.round(x)
        canon.append(x)
        nd = len(shape)
        if axes_in is not None or (axis is not None and cd):
            dest = [p % nd for p in (axes_in[i] if axes_in is not None else [axis])]
            src = list(range(nd - len(cd), nd))
            xa = np.moveaxis(x, src, dest)
            order = [None] * nd
            for s, dpos in zip(src, dest):
                order[dpos] = s
            rest = [p for p in range(nd) if p not in src]
            it = iter(rest)
            order = [o if o is not None else next(it) for o in order]
            cha = tuple(chunks[o] for o in order)
            assert xa.shape == tuple(shape[o] for o in order)
        else:
            xa, cha = x, tuple(chunks)
        actual.append(xa)
        dargs.append(da.from_array(xa, chunks=cha))
    ctx.nontrivial = any(A.has_split(d.chunks) for d in dargs)
    feats = [sig]
    if axis is not None:
        feats.append("axis")
    if axes_in is not None:
        feats.append("axes")
    if keepdims:
        feats.append("keepdims")
    if case["allow_rechunk"]:
        feats.append("allow_rechunk")
    if len({len(a["loop"]) for a in case["args"]}) > 1 or any(1 in a["loop"] for a in case["args"]):
        feats.append("loop-broadcast")
    feat = "&".join(feats)
    ctx.op("gufunc:" + sig)
    for ft in feats[1:]:
        ctx.op("gufunc:" + ft)
    # ---- reference: numpy.vectorize on canonical arguments, then NumPy's gufunc axes/keepdims placement ------------
    try:
        with np.errstate(all="ignore"):
            ref = np.vectorize(f, signature=sig)(*canon)
    except Exception as ex:  # noqa: BLE001
        ctx.reject("numpy.vectorize: %s: %s" % (type(ex).__name__, ex))
        return
    refs = list(ref) if nout > 1 else [ref]
    refs = [np.asarray(r) for r in refs]
    kw = {"vectorize": True, "allow_rechunk": case["allow_rechunk"]}
    odt = [r.dtype for r in refs]
    if case["meta"] == "meta":
        kw["meta"] = tuple(np.empty((0,), dtype=o) for o in odt) if nout > 1 else np.empty((0,), dtype=odt[0])
    else:
        kw["output_dtypes"] = odt if nout > 1 else odt[0]
    if "k" in "".join(outs):
        kw["output_sizes"] = {"k": core["k"]}
    out_axes = None
    if axis is not None:
        kw["axis"] = axis
    if axes_in is not None:
        ax = [tuple(a) for a in axes_in]
        if any(out_core) and not keepdims:
            out_axes = []
            orng = random.Random(case["seed"])
            for r, oc in zip(refs, out_core):
                out_axes.append(tuple(orng.sample(range(-r.ndim, 0), len(oc))))
            ax = ax + out_axes
        kw["axes"] = ax
    if keepdims:
        kw["keepdims"] = True
    # expected placement
    exps = []
    for oi, (r, oc) in enumerate(zip(refs, out_core)):
        e = r
        if keepdims:
            first = next(i for i, cd in enumerate(in_core) if cd)
            nd_in = canon[first].ndim
            pos = [p % nd_in for p in (axes_in[first] if axes_in is not None else ([axis] if axis is not None else list(range(-len(in_core[first]), 0))))]
            for p in sorted(pos):
                e = np.expand_dims(e, p)
        elif oc:
            if out_axes is not None:
                e = np.moveaxis(e, list(range(e.ndim - len(oc), e.ndim)), [p % e.ndim for p in out_axes[oi]])
            elif axis is not None:
                e = np.moveaxis(e, e.ndim - 1, axis % e.ndim)
        exps.append(e)
    sigarg = sig.replace(",", " , ").replace("->", " -> ") if case.get("spaces") else sig
    try:
        with warnings.catch_warnings():
            warnings.simplefilter("ignore")
            res = da.apply_gufunc(f, sigarg, *dargs, **kw)
    except NotImplementedError as ex:
        ctx.unsupported(str(ex))
        return
    except Exception as ex:  # noqa: BLE001
        ctx.exception(ex, prefix="gufunc:%s:build" % feat)
        return
    ress = list(res) if nout > 1 else [res]
    ctx.count("gufunc_calls")
    try:
        vals = dask.compute(*ress, scheduler="threads" if case.get("threads") else "sync")
    except Exception as ex:  # noqa: BLE001
        ctx.exception(ex, prefix="gufunc:%s:compute" % feat)
        return
    for oi, (z, v, e) in enumerate(zip(ress, vals, exps)):
        ctx.count("gufunc_outputs_compared")
        m = compare_arrays(v, e, exact=True)
        if m:
            ctx.violation("gufunc:%s:%s" % (feat, m[0]), "output %d: %s" % (oi, m[1]), kw={k: str(x) for k, x in kw.items()})
            return
        m = lazy_meta_mismatch(z, v)
        if m:
            ctx.violation("gufunc:%s:%s" % (feat, m[0]), "output %d: %s" % (oi, m[1]))
            return
        try:
            m = blocks_mismatch(z)
        except Exception as ex:  # noqa: BLE001
            ctx.exception(ex, prefix="gufunc:%s:blocks" % feat)
            return
        ctx.count("blocks_mismatch_checked")
        if m:
            ctx.violation("gufunc:%s:%s" % (feat, m[0]), "output %d: %s" % (oi, m[1]))
            return
    ctx.sample = {"sig": sig, "chunks_in": [str(d.chunks) for d in dargs], "out_chunks": [str(z.chunks) for z in ress], "kw": sorted(kw)}


def run_case(case, ctx):
    with warnings.catch_warnings():
        warnings.simplefilter("ignore")
        if case["kind"] == "map_blocks":
            _run_map_blocks(case, ctx)
        elif case["kind"] == "blockwise":
            _run_blockwise(case, ctx)
        else:
            _run_gufunc(case, ctx)


CALIBRATION = [
    "block_info[None]['dtype'] is None when only meta= is passed to map_blocks (dask forwards its local dtype variable); the "
    "statement speaks about locations, so 'dtype' is compared only when dtype= was given.",
    "calls of the user function made while the graph is built (compute_meta with zero-size inputs when only dtype= is given) are "
    "not calls per output block: the record is cleared after construction.",
    "blockwise(align_arrays=False): the declared chunk of a letter is that of the first operand with most blocks, so broadcast "
    "(length-1) operands are only generated together with align_arrays=True; a broadcast axis is only generated for letters that "
    "stay in the output (a contracted broadcast axis has no documented meaning).",
    "labels carry only the keywords that can influence the failing facet (RELEVANT) so that one mechanism gets one label.",
    "follow-up: the first version never broadcast an operand along a CONTRACTED letter (judged undocumented); dask's own comment in "
    "_get_coord_mapping defines it (the block is repeated dims[ind] times in a list, emitted once when concatenating), the statement's "
    "'aligned by block index (broadcasting size-1 block dimensions)' covers it: now generated and checked (list-structure facet).",
]
