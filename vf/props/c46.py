"""C46 — window, cumulative and shift operations are seamless across partitions.

Reference-model monitor: every generated program is ONE description that is
turned into a dask expression on a partitioned frame WITH KNOWN DIVISIONS and
into the same pandas program on the unpartitioned frame; the computed dask
result must equal the pandas result (``frames.compare(ordered=True,
rtol=1e-9)``: kind, columns, dtypes, length, index, values).

Operations (all named by the statement): ``rolling(window int | time offset,
min_periods, center).{sum, mean, min, max, count, std, var, median, apply(raw=)}``,
``cumsum/cumprod/cummin/cummax(skipna)``, ``shift(periods +/-, freq)``,
``diff(periods +/-)``, ``pct_change``, ``ffill/bfill(limit)``, ``map_overlap(func,
before, after)`` (method and ``dd.map_overlap``) with functions whose window
fits into ``before``/``after``; on Series and DataFrames.

Partitionings: ``from_pandas`` (npartitions / chunksize), arbitrary row
compositions with known divisions built with ``from_delayed(divisions=)``,
``from_map(divisions=)`` or ``from_pandas(1).repartition(divisions=)`` —
including single-row partitions and EMPTY partitions (placed in index gaps) —
and an optional row filter below the operation (empties partitions while the
divisions stay known).  NaN runs are generated so that they cross partition
boundaries.

Family "regular" (regularly sampled data): DatetimeIndex of frequency 1s / 500ms / 1min / 1D, time-offset
windows that are even and odd multiples (1..8) of the sampling period, ``center`` True/False, ``min_periods``,
every rolling aggregation (sum, count, mean, max, min, std, var, median, quantile, apply raw/Series), partition
boundaries anywhere (regular sampling puts a row exactly w/2 and exactly w away from every partition's first /
last row whenever w/2 resp. w is a multiple of the period) -- through ``ddf.rolling`` and, with
``closed in {right, left, both, neither}``, through ``map_overlap`` with timedelta ``before``/``after`` around
``x.rolling(w, center=, closed=, min_periods=)``.  A seed-independent grid (1 s data, windows of 2..6 periods x
center x min_periods x all aggregations x two row compositions; map_overlap: 2..4 periods x center x closed x
sum/count/max) comes first, then seeded random cases.  Input feature ``row-exactly-at-window-edge``: some row
of another partition lies exactly at the far edge of the window of a partition's last / first row (centered:
last + w/2 or first - w/2, trailing: first - w).

Outcomes: pandas raising -> rejected; dask raising ``NotImplementedError`` (the
documented "Partition size is less than overlapping window size" error of
``_combined_parts`` when an int window/period exceeds a neighbouring partition)
or lacking the method altogether (``pct_change``) -> unsupported; any other
dask exception -> violation.

Labels
------
values / index / length differences: ``<family>[.agg]:<parameter features>:<series|frame|one-column-frame>&
<partition feature>:<kind>``; the partition feature is the first that applies of (cum*, fill: empty-partition,
all-nan-partition, nan-run-crosses-boundary; cum* with skipna=False: empty-partition,
nan-before-last-partition; others: empty-partition), else ``any-partitioning``.  dtype differences:
``<family>:<frame[float+int]|series[int]|...>:dtype``.  Exceptions: ``<family>[:code-path parameters]:
<ExcType@file:function>``.  cumsum/cumprod and cummin/cummax and ffill/bfill are one family each (same code).
Time windows whose inputs have the feature ``row-exactly-at-window-edge`` (and no empty partition):
``<family>:<parameter features>:row-exactly-at-window-edge:<kind>`` -- which rows travel between partitions
does not depend on the aggregation or the target's shape, so neither is in the label.

Calibration
-----------
* domain decision (lead): the statement says "ffill/bfill with limits", so ``limit=None`` is NOT generated.
  Without a limit dask deliberately raises ``ValueError("All NaN partition encountered in `fillna` ... or specify
  `limit`")`` (``methods.fillna_check``) whenever a partition has an all-NaN column or is empty, because its
  one-row overlap cannot carry a value across a whole partition: a documented guard outside the statement, no
  finding.  The complete sub-space uses ``bfill(limit=2)`` in place of the bare ``bfill``.
* pandas has no ``closed=`` in dask's ``Rolling`` signature -> not generated; ``win_type`` not generated.
  (``ddf.rolling(w, closed=...)`` is a TypeError in this tree.)  ``closed`` is exercised where dask does accept
  it: inside the function given to ``map_overlap`` with timedelta ``before``/``after`` (family "regular").
* map_overlap with timedelta overlaps selects ``index > first - before`` and ``index < last + after`` (both
  strict; not documented either way).  The generator therefore passes the smallest overlaps into which the
  window fits under that reading: window reach, plus 1 ns on a side where the window edge is closed
  (``closed`` left/both on the leading side; right/both on the trailing side of a centered window), optionally
  plus one sampling period.  Demanding the edge row with ``before == reach`` would be stricter than anything
  dask documents.
* false alarm corrected: the shared ``frames._classify`` calls a per-column value difference "index" because
  pandas prints ``[index]: [...]`` in the message -> ``_kind`` maps those to ``values``.
* false alarm corrected: dtype is not demanded of EMPTY results (``shift/diff`` of zero rows keeps int64 in
  pandas because no NaN is introduced; dask's meta cannot depend on the length).  Witness:
  2 rows, all filtered away, ``df[['a','c']].shift(-3)``: pandas int64, dask float64.
* a dtype difference does not end the comparison: values are compared again with ``check_dtype=False`` (the
  int->float64 finding of cumsum used to hide the NaN-propagation finding).
* ``NotImplementedError("Partition size is less than overlapping window size")`` is the documented limit of
  ``map_overlap`` (``_combined_parts``): unsupported, counted; it also fires for ``shift(n, freq=...)``.
* ``pct_change`` does not exist on dask Series/DataFrame in this tree: unsupported, counted.
* map_overlap functions are only such whose window fits into before/after (rolling(b+1) with before>=b,
  shift(-a) with after>=a, centered rolling(2b+1) with before=after=b, ffill+bfill(limit=b)).
* cut points of the explicit compositions never split equal index labels (dask's divisions could not describe
  such a partitioning); empty partitions are placed inside index gaps so that the divisions stay truthful
  (checked once with the C41 monitor for every grid partitioning).
* the cumulative family is additionally run on a seed-independent grid (2 fixed frames x 17 partitionings x 6
  targets x 4 functions x skipna) so that its many mechanism labels do not depend on lucky seeds.
"""
from __future__ import annotations

import random

PROP = "C46"
RULE = ("case = (frame seed, rows, index kind, NaN density, partitioning description, optional row filter, "
        "Series/DataFrame target, operation description); complete sub-space first: all 128 compositions of a fixed "
        "8-row frame (fixed NaN pattern) x {rolling(3).sum, cumsum, cummax, shift(1), shift(-2), diff, ffill(limit=1), "
        "bfill(limit=2)}; then a seed-independent grid for the cumulative family (2 fixed frames x 17 partitionings incl. empty "
        "partitions x 6 Series/DataFrame targets x cumsum/cumprod/cummin/cummax x skipna), then seeded random "
        "cases; family 'regular': regularly sampled DatetimeIndex (1s/500ms/1min/1D), time windows = 1..8 sampling "
        "periods, center, min_periods, every rolling aggregation, and map_overlap(timedelta before/after) around "
        "rolling(closed=right/left/both/neither) -- a seed-independent grid, then seeded random cases; "
        "non-trivial = >= 2 partitions on a non-empty frame; distinct = distinct case descriptions")
ASSUMPTIONS = [
    "pandas on the unpartitioned frame is the reference",
    "dask.dataframe is imported through the pyarrow import stub (pandas-backed strings); sync scheduler",
]
BUDGET = {"quick": 110, "thorough": 720}
FLOORS = {
    "quick": {"evaluations": 2800, "distinct_nontrivial": 2100,
              "counters": {"compared": 2300, "compared:cum": 900, "compared:rolling": 550, "compared:shift": 120,
                           "compared:diff": 130, "compared:fill": 200, "compared:map_overlap": 240,
                           "compared_multi_partition": 2000, "inputs_with_empty_partition": 600,
                           "inputs_with_all_nan_partition": 650, "inputs_with_nan_run_crosses_boundary": 450,
                           "inputs_with_single_row_partition": 1200,
                           # family "regular" (measured 847..870 / 612..642 / 226..254 / 246..272 / 158..169 / 717..739 /
                           # 361..381 / 112..141 / 166..190 / 333..346 over the five seeds)
                           "compared:regular": 385, "regular:rolling": 280, "regular:map_overlap": 100,
                           "regular_rolling_center_multi_partition": 110, "regular_rolling_center_even_multiple": 72,
                           "regular_compared_with_row_exactly_at_window_edge": 325,
                           "regular_rolling_trailing_multi_partition": 165,
                           "regular_map_overlap_center_multi_partition": 50,
                           "regular_map_overlap_closed_nondefault": 75, "regular_rolling_min_periods": 150},
              "sets": {"regular_variants": 120},
              "max_skipped_fraction": 0.35},
    "thorough": {"evaluations": 17500, "distinct_nontrivial": 12000,
                 "counters": {"compared": 13000, "compared:cum": 2700, "compared:rolling": 5000, "compared:shift": 900,
                              "compared:diff": 850, "compared:fill": 1600, "compared:map_overlap": 2100,
                              "compared_multi_partition": 11000, "inputs_with_empty_partition": 3000,
                              "inputs_with_all_nan_partition": 3400, "inputs_with_nan_run_crosses_boundary": 2600,
                              "inputs_with_single_row_partition": 7000,
                              # family "regular" (measured 7115 / 5252 / 1863 / 2415 / 1571 / 5889 / 2832 / 954 / 1391 / 2883)
                              "compared:regular": 3200, "regular:rolling": 2350, "regular:map_overlap": 840,
                              "regular_rolling_center_multi_partition": 1080, "regular_rolling_center_even_multiple": 700,
                              "regular_compared_with_row_exactly_at_window_edge": 2650,
                              "regular_rolling_trailing_multi_partition": 1270,
                              "regular_map_overlap_center_multi_partition": 430,
                              "regular_map_overlap_closed_nondefault": 620, "regular_rolling_min_periods": 1300},
                 "sets": {"regular_variants": 230},
                 "max_skipped_fraction": 0.35},
}
EXHAUSTIVE_SPACE = {
    "quick": "all 128 compositions of an 8-row frame (fixed NaN pattern, from_delayed with divisions) x "
             "{rolling(3).sum, cumsum, cummax, shift(1), shift(-2), diff, ffill(limit=1), bfill(limit=2)}",
    "thorough": "all 128 compositions of an 8-row frame (fixed NaN pattern) x {from_delayed(divisions), "
                "from_pandas(1).repartition(divisions)} x {rolling(3).sum, cumsum, cummax, shift(1), shift(-2), diff, "
                "ffill(limit=1), bfill(limit=2)} x {DataFrame, Series}",
}
CLAIM = ("Every generated rolling / cumulative / shift / diff / fill / map_overlap program gave, on every generated "
         "partitioning with known divisions (all compositions of a small frame, random compositions with single-row "
         "and empty partitions, NaN runs across boundaries), the same result as pandas on the unpartitioned frame. "
         "Held means: no differing result among the executions observed; documented NotImplementedError cases are "
         "counted as unsupported.")
LEVEL_NOTE = "trusts pandas as the reference and the harness comparison (pandas.testing with rtol 1e-9)"
TECHNIQUE = "runtime monitoring: pandas differential on one program description, complete small partition space + random"
CASE_TIMEOUT = 120
PENDING = {}   # all labels found on the pinned tree are removed by fixes_ready/C46_01..03 (see findings_proposed/C46.md)

EX_OPS = (
    {"op": "rolling", "window": 3, "min_periods": None, "center": False, "agg": "sum"},
    {"op": "cum", "fn": "cumsum", "skipna": True},
    {"op": "cum", "fn": "cummax", "skipna": True},
    {"op": "shift", "periods": 1, "freq": None},
    {"op": "shift", "periods": -2, "freq": None},
    {"op": "diff", "periods": 1},
    {"op": "fill", "fn": "ffill", "limit": 1},
    {"op": "fill", "fn": "bfill", "limit": 2},
)
GRID_PARTS = (([4, 4], []), ([1, 7], []), ([3, 1, 4], []), ([2, 2, 4], []), ([1, 1, 6], []), ([3, 5], []),
              ([7, 1], []), ([1] * 8, []), ([8], []), ([4, 4], [1]), ([4, 4], [0]), ([2, 3, 3], [1, 3]), ([4, 4], [2]),
              ([8], [0]), ([8], [1]), ([8], [0, 0]), ([7, 1], [0]))
INDEX_KINDS = ("gaps", "gaps", "dups", "datetime", "datetime", "datetime-dups", "float")
AGGS = ("sum", "mean", "min", "max", "count", "std", "var", "median", "apply-raw", "apply-series")


def _compositions(n):
    for mask in range(2 ** (n - 1)):
        sizes, run = [], 1
        for b in range(n - 1):
            if mask >> b & 1:
                sizes.append(run)
                run = 1
            else:
                run += 1
        sizes.append(run)
        yield sizes


# ----------------------------------------------------------------------------- cases
def cases(tier, seed):
    rng = random.Random(seed * 7907 + 46)
    vias = ("delayed",) if tier == "quick" else ("delayed", "repartition")
    targets = ("frame",) if tier == "quick" else ("frame", "series")
    for sizes in _compositions(8):
        for via in vias:
            for tgt in targets:
                for op in EX_OPS:
                    yield {"space": "exhaustive", "part": {"how": "sizes", "sizes": sizes, "via": via},
                           "target": tgt, "op": op}
    # deterministic grid over the cumulative family (seed independent): every fn x skipna x target shape x
    # partition feature (plain, single rows, all-NaN partition, NaN run across a boundary, empty partition
    # first / inner / several) on two fixed frames, so that every mechanism label of this family is reached in
    # every run and not only by lucky seeds
    for fr in (0, 1):
        for sizes, empty_at in GRID_PARTS:
            for tgt in ("frame", "series-c", "series-a", "series-d", "cols-ac", "cols-c"):
                for fn in ("cumsum", "cumprod", "cummin", "cummax"):
                    for skipna in (True, False):
                        yield {"space": "grid", "frame": fr, "target": tgt,
                               "part": {"how": "sizes", "sizes": sizes, "empty_at": empty_at, "via": "delayed"},
                               "op": {"op": "cum", "fn": fn, "skipna": skipna}}
    yield from _regular_grid(tier)
    yield from _regular_random(tier, seed)
    n = 2600 if tier == "quick" else 26000
    for _ in range(n):
        nrows = rng.choice((2, 3, 5, 8, 12, 16, 24, 40, rng.randint(1, 40)))
        index = rng.choice(INDEX_KINDS)
        yield {"fseed": rng.randrange(2 ** 31), "nrows": nrows, "index": index,
               "nan": rng.choice((0.0, 0.25, 0.25, 0.5, 0.8)),
               "part": _rand_part(rng, nrows), "pre": rng.choice((None, None, None, "filter")),
               "target": rng.choice(("frame", "frame", "series-c", "series-a", "series-d", "cols-ac", "cols-c")),
               "op": _rand_op(rng, index, nrows)}


# ---- family "regular": regularly sampled datetime indexes, windows that are multiples of the sampling period
REG_FREQS = {"1s": ("s", 1), "500ms": ("ms", 500), "1min": ("min", 1), "1D": ("D", 1)}
REG_AGGS = ("sum", "count", "mean", "max", "min", "std", "var", "median", "quantile", "apply-raw", "apply-series")
REG_CLOSED = ("right", "left", "both", "neither")


def _reg_window(freq, mult):
    unit, k = REG_FREQS[freq]
    return "%d%s" % (k * mult, unit)


def _regular_grid(tier):
    """seed independent: 1 s data, every window of 2..6 periods x center x min_periods x every rolling aggregation
    on two row compositions (partitions longer than the window; a single-row partition in between), and
    map_overlap with timedelta before/after around rolling(closed=...)"""
    comps = ([10, 10, 10], [6, 1, 9, 14]) if tier == "quick" else ([10, 10, 10], [6, 1, 9, 14], [15, 15], [4, 8, 4, 8, 6])
    freqs = ("1s",) if tier == "quick" else ("1s", "500ms", "1D")
    i = 0
    for freq in freqs:
        for mult in (2, 3, 4, 5, 6):
            for center in (True, False):
                for mp in (None, 2):
                    for agg in REG_AGGS:
                        for sizes in comps:
                            i += 1
                            yield {"space": "grid", "family": "regular", "freq": freq, "nrows": sum(sizes), "fseed": 4600 + i % 7,
                                   "nan": 0.25 if i % 3 else 0.0, "part": {"how": "sizes", "sizes": list(sizes), "via": "delayed"},
                                   "target": ("frame", "series-c", "series-d")[i % 3],
                                   "op": {"op": "rolling", "window": _reg_window(freq, mult), "mult": mult, "min_periods": mp,
                                          "center": center, "agg": agg}}
        for mult in (2, 3, 4):
            for center in (True, False):
                for closed in REG_CLOSED:
                    for agg in ("sum", "count", "max"):
                        i += 1
                        yield {"space": "grid", "family": "regular", "freq": freq, "nrows": 30, "fseed": 4600 + i % 7, "nan": 0.25,
                               "part": {"how": "sizes", "sizes": [10, 10, 10], "via": "delayed"},
                               "target": ("frame", "series-c")[i % 2],
                               "op": {"op": "map_overlap", "func": "timewin", "window": _reg_window(freq, mult), "mult": mult,
                                      "center": center, "closed": closed, "min_periods": 1, "agg": agg, "slack": 0,
                                      "api": ("method", "function")[i % 2], "meta": False}}


def _regular_random(tier, seed):
    rng = random.Random(seed * 6007 + 4646)
    n = 520 if tier == "quick" else 5200
    for _ in range(n):
        freq = rng.choice(("1s", "1s", "500ms", "1min", "1D"))
        nrows = rng.choice((12, 16, 20, 24, 30, 40, 48, rng.randint(6, 48)))
        mult = rng.choice((1, 2, 2, 3, 4, 4, 5, 6, 6, 8))
        center = rng.random() < 0.55
        nparts = rng.choice((2, 2, 3, 3, 4, 5))
        k = rng.choice(("npartitions", "sizes", "sizes", "sizes"))
        if k == "npartitions":
            part = {"how": k, "n": nparts}
        else:
            # cut points: mostly leaving partitions longer than the window, sometimes anywhere
            lo = mult + 1 if rng.random() < 0.75 else 1
            cuts, c = [], 0
            for _p in range(nparts - 1):
                c += rng.randint(lo, max(lo, nrows // nparts + 2))
                if c < nrows:
                    cuts.append(c)
            part = {"how": "sizes", "cuts": cuts, "via": rng.choice(("delayed", "delayed", "map", "repartition"))}
        if rng.random() < 0.65:
            op = {"op": "rolling", "window": _reg_window(freq, mult), "mult": mult,
                  "min_periods": rng.choice((None, None, 1, 2, mult)), "center": center, "agg": rng.choice(REG_AGGS)}
        else:
            op = {"op": "map_overlap", "func": "timewin", "window": _reg_window(freq, mult), "mult": mult, "center": center,
                  "closed": rng.choice(REG_CLOSED), "min_periods": rng.choice((1, 1, 2, mult)),
                  "agg": rng.choice(("sum", "count", "mean", "max", "min", "median")), "slack": rng.choice((0, 0, 1)),
                  "api": rng.choice(("method", "method", "function")), "meta": rng.random() < 0.3}
        yield {"family": "regular", "freq": freq, "nrows": nrows, "fseed": rng.randrange(2 ** 31),
               "nan": rng.choice((0.0, 0.25, 0.5)), "part": part,
               "target": rng.choice(("frame", "frame", "series-c", "series-a", "series-d", "cols-ac", "cols-c")), "op": op}


def _rand_part(rng, n):
    k = rng.choice(("npartitions", "chunksize", "sizes", "sizes", "sizes"))
    if k == "npartitions":
        return {"how": k, "n": rng.choice((1, 2, 2, 3, 4, 5, 7, rng.randint(1, max(1, n))))}
    if k == "chunksize":
        return {"how": k, "n": rng.randint(1, max(1, n))}
    nparts = rng.choice((1, 2, 2, 3, 3, 4, 5, 6, 8))
    cuts = sorted(rng.randint(0, n) for _ in range(nparts - 1))
    return {"how": "sizes", "cuts": cuts, "via": rng.choice(("delayed", "delayed", "map", "repartition")),
            "empties": rng.choice((0, 0, 0, 1, 2)), "eseed": rng.randrange(2 ** 31)}


def _rand_op(rng, index, n):
    dt = index.startswith("datetime")
    k = rng.choice(("rolling", "rolling", "rolling", "cum", "cum", "shift", "diff", "fill", "fill", "map_overlap",
                    "map_overlap", "pct_change"))
    if k == "pct_change" and rng.random() < 0.8:
        k = "rolling"
    if k == "rolling":
        if dt and rng.random() < 0.5:
            w = rng.choice(("1min", "2min", "3min", "5min", "7min", "10min", "30min", "2h"))
            mp = rng.choice((None, None, 1, 2, 3))
            center = rng.random() < 0.12
        else:
            w = rng.choice((1, 2, 2, 3, 3, 4, 5, 7))
            mp = rng.choice((None, None, 0, 1, 2, w))
            if mp is not None and mp > w:
                mp = w
            center = rng.random() < 0.3
        return {"op": k, "window": w, "min_periods": mp, "center": center, "agg": rng.choice(AGGS)}
    if k == "cum":
        return {"op": k, "fn": rng.choice(("cumsum", "cumprod", "cummin", "cummax")), "skipna": rng.random() < 0.75}
    if k == "shift":
        freq = rng.choice((None, None, "1min", "3min", "1h")) if dt else None
        return {"op": k, "periods": rng.choice((-3, -2, -1, -1, 1, 1, 2, 3, 0)), "freq": freq}
    if k == "diff":
        return {"op": k, "periods": rng.choice((-3, -2, -1, -1, 1, 1, 2, 3))}
    if k == "fill":
        return {"op": k, "fn": rng.choice(("ffill", "bfill")), "limit": rng.choice((1, 1, 2, 2, 3, 5))}
    if k == "pct_change":
        return {"op": k, "periods": rng.choice((1, 1, 2, -1))}
    kinds = ["rollsum", "shiftneg", "diff", "center", "fillboth"] + (["timeroll"] * 2 if dt else [])
    f = rng.choice(kinds)
    b = rng.choice((1, 1, 2, 3))
    return {"op": "map_overlap", "func": f, "b": b, "slack": rng.choice((0, 0, 1)),
            "api": rng.choice(("method", "method", "function")), "meta": rng.random() < 0.3,
            "tw": rng.choice(("2min", "5min", "10min", "30min"))}


# ----------------------------------------------------------------------------- data
def shard_setup(tier, seed):
    from vf.gen import frames

    frames.setup()
    import dask

    dask.config.set(scheduler="sync")


def _fixed_frame(which=0):
    import numpy as np
    import pandas as pd

    nan = np.nan
    c = [nan, 1.5, nan, nan, -2.0, 3.0, nan, 0.5] if which == 0 else [1.5, nan, nan, 2.0, -1.0, nan, 0.5, 3.0]
    return pd.DataFrame({"a": np.array([1, 2, -1, 3, 1, -2, 2, 1], dtype="int64"),
                         "c": c,
                         "d": [0.5, -1.0, 2.0, 2.0, -3.0, 1.0, 0.0, 4.0]},
                        index=pd.Index(np.arange(8, dtype="int64") * 2 + 1, name="idx"))


def _rand_frame(case):
    import numpy as np
    import pandas as pd

    r = np.random.default_rng(case["fseed"])
    n = case["nrows"]
    a = r.choice(np.array([1, 1, -1, 2, -2, 3], dtype="int64"), n)
    c = np.round(r.normal(size=n), 2)
    d = r.integers(-3, 4, n).astype("float64")
    # NaN runs (geometric lengths) so that runs cross partition boundaries
    p = case["nan"]
    i = 0
    while i < n and p > 0:
        if r.random() < p / 2:
            ln = int(r.geometric(0.4))
            c[i:i + ln] = np.nan
            i += ln
        i += 1
    e = r.random(n) < 0.6
    if n >= 6 and r.random() < 0.5:                       # a run of False empties whole partitions under the filter
        s = int(r.integers(0, n - 2))
        e[s:s + int(r.integers(2, max(3, n // 2)))] = False
    df = pd.DataFrame({"a": a, "c": c, "d": d, "e": e})
    kind = case["index"]
    if kind == "gaps":
        df.index = pd.Index(np.cumsum(r.integers(1, 4, n)).astype("int64"), name="idx")
    elif kind == "dups":
        df.index = pd.Index(np.cumsum(r.integers(0, 3, n)).astype("int64"), name="idx")
    elif kind == "float":
        df.index = pd.Index(np.round(np.cumsum(r.integers(1, 8, n)) * 0.25, 2), name="fx")
    else:
        lo = 0 if kind == "datetime-dups" else 1
        steps = r.integers(lo, 6, n)
        df.index = pd.DatetimeIndex(pd.Timestamp("2021-03-01") + pd.to_timedelta(np.cumsum(steps), unit="min"), name="ts")
    return df


def _regular_frame(case):
    """a, c (NaN runs), d, e on a regularly sampled DatetimeIndex"""
    import numpy as np
    import pandas as pd

    r = np.random.default_rng(case["fseed"])
    n = case["nrows"]
    a = r.choice(np.array([1, 1, -1, 2, -2, 3], dtype="int64"), n)
    c = np.round(r.normal(size=n), 2)
    d = r.integers(-3, 4, n).astype("float64")
    p = case["nan"]
    i = 0
    while i < n and p > 0:
        if r.random() < p / 2:
            ln = int(r.geometric(0.4))
            c[i:i + ln] = np.nan
            i += ln
        i += 1
    df = pd.DataFrame({"a": a, "c": c, "d": d, "e": r.random(n) < 0.6})
    df.index = pd.date_range("2021-03-01 00:00:00", periods=n, freq=case["freq"], name="ts")
    return df


def _ident(p):
    return p


def _between(lo, hi):
    """a value strictly between two index values lo < hi, or None"""
    import pandas as pd

    if isinstance(lo, pd.Timestamp):
        m = lo + (hi - lo) / 2
        m = m.floor("s")
        return m if lo < m < hi else None
    if isinstance(lo, float):
        m = round((lo + hi) / 2, 4)
        return m if lo < m < hi else None
    m = (int(lo) + int(hi)) // 2
    return m if lo < m < hi else None


def _partition(pdf, desc):
    """-> dask frame with KNOWN divisions.  sizes/cuts forms never split equal index values."""
    import dask
    import dask.dataframe as dd

    how = desc["how"]
    n = len(pdf)
    if how == "npartitions":
        return dd.from_pandas(pdf, npartitions=max(1, desc["n"]))
    if how == "chunksize":
        return dd.from_pandas(pdf, chunksize=max(1, desc["n"]))
    if "sizes" in desc:
        cuts, acc = [], 0
        for s in desc["sizes"][:-1]:
            acc += s
            cuts.append(acc)
    else:
        cuts = list(desc["cuts"])
    idx = pdf.index
    norm = []
    for c in cuts:
        c = min(max(c, 0), n)
        while 0 < c < n and idx[c] == idx[c - 1]:      # never split a run of equal labels
            c -= 1
        if 0 < c < n and c not in norm:
            norm.append(c)
    norm.sort()
    b = [0] + norm + [n]
    parts = [pdf.iloc[x:y] for x, y in zip(b[:-1], b[1:])]
    if n == 0:
        return dd.from_pandas(pdf, npartitions=1)
    divs = [idx[x] for x in b[:-1]] + [idx[-1]]
    divs = [d.item() if hasattr(d, "item") and not hasattr(d, "tz") else d for d in divs]
    # empty partitions inside index gaps: partition [m, next) holds nothing, the previous one ends before m
    ne = desc.get("empties", 0)
    if ne:
        rng = random.Random(desc.get("eseed", 0))
        for _ in range(ne):
            if len(parts) < 2:
                break
            j = rng.randrange(1, len(parts))              # insert an empty partition before partition j
            if len(parts[j]) == 0 or len(parts[j - 1]) == 0:
                continue
            lo, hi = parts[j - 1].index[-1], divs[j]
            lo = lo.item() if hasattr(lo, "item") and not hasattr(lo, "tz") else lo
            m = _between(lo, hi)
            if m is None:
                continue
            parts.insert(j, pdf.iloc[0:0])
            divs.insert(j, m)
    for j in sorted(desc.get("empty_at", ()), reverse=True):
        # explicit positions (grid): an empty partition before partition j of the row composition,
        # j == len(parts) appends one (its interval lies above the last label)
        if j == 0:
            parts.insert(0, pdf.iloc[0:0])
            divs.insert(0, divs[0] - 1)
        elif j >= len(parts):
            last = divs[-1]
            divs[-1] = last + 1                     # previous partition: [.., last + 1) holds the maximum
            parts.append(pdf.iloc[0:0])
            divs.append(last + 2)
        else:
            m = _between(parts[j - 1].index[-1].item(), divs[j])
            parts.insert(j, pdf.iloc[0:0])
            divs.insert(j, m)
    via = desc.get("via", "delayed")
    meta = pdf.iloc[:0]
    if via == "delayed":
        return dd.from_delayed([dask.delayed(_ident)(p) for p in parts], meta=meta, divisions=tuple(divs))
    if via == "map":
        return dd.from_map(_ident, parts, meta=meta, divisions=tuple(divs))
    return dd.from_pandas(pdf, npartitions=1).repartition(divisions=list(divs))


# ----------------------------------------------------------------------------- the program (one description, two sides)
def _nansum(x):
    import numpy as np

    return np.nansum(x)


def _first_minus_last(s):
    return s.iloc[0] - s.iloc[-1]


def _mo_func(op):
    f, b = op["func"], op.get("b")
    if f == "rollsum":
        return (lambda x: x.rolling(b + 1, min_periods=1).sum()), b + op["slack"], 0
    if f == "shiftneg":
        return (lambda x: x.shift(-b)), 0, b + op["slack"]
    if f == "diff":
        return (lambda x: x.diff(b)), b + op["slack"], 0
    if f == "center":
        return (lambda x: x.rolling(2 * b + 1, center=True, min_periods=1).mean()), b, b
    if f == "fillboth":
        return (lambda x: x.ffill(limit=b).bfill(limit=b)), b, b
    if f == "timeroll":
        tw = op["tw"]
        return (lambda x: x.rolling(tw, min_periods=1).sum()), tw, 0
    if f == "timewin":
        # rolling(<offset>, center=, closed=) inside map_overlap: before/after are the smallest timedeltas into
        # which the window fits.  dask selects the rows with ``index > first - before`` and ``index < last + after``
        # (both strict), so a closed window edge needs 1 ns more than the window reach
        import pandas as pd

        w, center, closed, mp, agg = op["window"], op["center"], op["closed"], op["min_periods"], op["agg"]
        tw = pd.Timedelta(w)
        unit = tw / op["mult"]
        eps = pd.Timedelta(1, "ns")
        if center:
            before = tw / 2 + (eps if closed in ("left", "both") else pd.Timedelta(0))
            after = tw / 2 + (eps if closed in ("right", "both") else pd.Timedelta(0))
        else:
            before = tw + (eps if closed in ("left", "both") else pd.Timedelta(0))
            after = 0
        if op.get("slack"):
            before = before + unit
            after = after + unit if center else 0

        def timewin(x):
            return getattr(x.rolling(w, center=center, closed=closed, min_periods=mp), agg)()

        return timewin, before, after
    raise ValueError(f)


def _program(x, op, dask_side):
    """the same program for a pandas object and a dask collection"""
    k = op["op"]
    if k == "rolling":
        r = x.rolling(op["window"], min_periods=op["min_periods"], center=op["center"])
        agg = op["agg"]
        if agg == "apply-raw":
            return r.apply(_nansum, raw=True)
        if agg == "apply-series":
            return r.apply(_first_minus_last, raw=False)
        if agg == "quantile":
            return r.quantile(0.25)
        return getattr(r, agg)()
    if k == "cum":
        return getattr(x, op["fn"])(skipna=op["skipna"])
    if k == "shift":
        if op["freq"] is None:
            return x.shift(op["periods"])
        return x.shift(op["periods"], freq=op["freq"])
    if k == "diff":
        return x.diff(op["periods"])
    if k == "fill":
        return getattr(x, op["fn"])(limit=op["limit"])
    if k == "pct_change":
        return x.pct_change(op["periods"])
    if k == "map_overlap":
        func, before, after = _mo_func(op)
        if not dask_side:
            return func(x)
        kw = {}
        if op.get("meta"):
            kw["meta"] = func(x._meta_nonempty).iloc[:0]
        if op.get("api") == "function":
            import dask.dataframe as dd

            return dd.map_overlap(func, x, before, after, **kw)
        return x.map_overlap(func, before, after, **kw)
    raise ValueError(k)


def _select(x, target):
    if target == "frame":
        return x[["a", "c", "d"]]
    if target == "series" or target == "series-c":
        return x["c"]
    if target == "series-a":
        return x["a"]
    if target == "series-d":
        return x["d"]
    if target == "cols-c":
        return x[["c"]]                      # one-column DataFrame
    return x[["a", "c"]]


# ----------------------------------------------------------------------------- classifier
def _family(op):
    k = op["op"]
    if k == "cum":
        return "cumsum-cumprod" if op["fn"] in ("cumsum", "cumprod") else "cummin-cummax"
    if k == "fill":
        return "ffill-bfill"
    if k == "map_overlap":
        return "map_overlap"
    return k


def _params(op):
    """parameter features of the operation (no values)"""
    k = op["op"]
    if k == "rolling":
        return "%s%s" % ("time-window" if isinstance(op["window"], str) else "int-window",
                         "&center" if op["center"] else "")
    if k == "cum":
        return "skipna" if op["skipna"] else "skipna=False"
    if k == "shift":
        return "%s%s" % ("periods>0" if op["periods"] > 0 else "periods<0" if op["periods"] < 0 else "periods==0",
                         "&freq" if op["freq"] else "")
    if k == "diff":
        return "periods>0" if op["periods"] > 0 else "periods<0"
    if k == "fill":
        return "limit=None" if op["limit"] is None else "limit"
    if k == "map_overlap":
        return "%s%s&%s" % (op["func"], "&center" if op.get("center") else "", op.get("api", "method"))
    return "periods"


def _exc_prefix(op):
    """exceptions: the raising function already names the mechanism; add only the parameter features that
    select a code path (window kind / center, limit=None, freq)"""
    k = op["op"]
    if k == "rolling":
        return "rolling:" + _params(op)
    if k == "fill":
        return "ffill-bfill:%s" % _params(op)
    if k == "shift":
        return "shift%s" % (":freq" if op["freq"] else "")
    if k == "map_overlap":
        return "map_overlap:" + op["func"]
    return _family(op)


def _value_label(op, feats, px, kind):
    import pandas as pd

    fam = _family(op)
    if kind == "dtype":
        if isinstance(px, pd.Series):
            shape = "series[%s]" % ("int" if str(px.dtype).startswith("int") else "float")
        else:
            kinds = {("int" if str(t).startswith("int") else "float") for t in px.dtypes}
            shape = "frame[%s]" % "+".join(sorted(kinds))
        return "%s:%s:dtype" % (fam, shape)
    agg = ".%s" % op["agg"] if op["op"] == "rolling" else ""
    if op["op"] == "cum" and not op["skipna"]:
        # skipna=False: what matters is whether a NaN has to be carried into later partitions
        order = ("empty-partition", "nan-before-last-partition")
    elif op["op"] in ("cum", "fill"):
        order = ("empty-partition", "all-nan-partition", "nan-run-crosses-boundary")
    elif (op["op"] == "rolling" and isinstance(op["window"], str)) or (op["op"] == "map_overlap" and op["func"] == "timewin"):
        order = ("empty-partition", "row-exactly-at-window-edge")
    else:
        order = ("empty-partition",)
    feat = next((f for f in order if f in feats), "any-partitioning")
    if feat == "row-exactly-at-window-edge":
        # which rows travel between partitions does not depend on the aggregation or on the target's shape
        return "%s:%s:%s:%s" % (fam, _params(op), feat, kind)
    tgt = "series" if isinstance(px, pd.Series) else ("one-column-frame" if px.shape[1] == 1 else "frame")
    return "%s%s:%s:%s&%s:%s" % (fam, agg, _params(op), tgt, feat, kind)


def _kind(m):
    """frames._classify calls a per-column value difference 'index' because pandas prints '[index]: [...]'"""
    k, msg = m
    if k == "index" and "column name=" in msg and "values are different" in msg:
        return "values"
    if k == "index" and msg.lstrip().startswith("Series are different") and "Series values are different" in msg:
        return "values"
    return k


def _part_features(parts, cols):
    """input features of the partitioning as seen by the operation"""
    import pandas as pd

    lens = [len(p) for p in parts]
    feats = []
    allnan = cross = False
    nonempty = [p for p in parts if len(p)]
    for p in nonempty:
        fr = p if isinstance(p, pd.DataFrame) else p.to_frame()
        if bool(fr.isna().all(axis=0).any()):
            allnan = True
    for p, q in zip(nonempty, nonempty[1:]):
        fp = p if isinstance(p, pd.DataFrame) else p.to_frame()
        fq = q if isinstance(q, pd.DataFrame) else q.to_frame()
        if bool((fp.iloc[-1].isna() & fq.iloc[0].isna()).any()):
            cross = True
    if any(n == 0 for n in lens):
        feats.append("empty-partition")
    if allnan:
        feats.append("all-nan-partition")
    if cross:
        feats.append("nan-run-crosses-boundary")
    for p in nonempty[:-1]:
        if bool(p.isna().values.any()):
            feats.append("nan-before-last-partition")
            break
    return feats, lens


# ----------------------------------------------------------------------------- run
def run_case(case, ctx):
    import warnings

    from vf.gen import frames

    frames.setup()
    import dask
    import pandas as pd

    dask.config.set(scheduler="sync")
    op = case["op"]
    with warnings.catch_warnings():
        warnings.simplefilter("ignore")
        if case.get("space") == "exhaustive":
            pdf = _fixed_frame()
        elif case.get("family") == "regular":
            pdf = _regular_frame(case)
        elif case.get("space") == "grid":
            pdf = _fixed_frame(case["frame"])
        else:
            pdf = _rand_frame(case)
        try:
            ddf = _partition(pdf, case["part"])
        except Exception as e:  # noqa: BLE001
            ctx.exception(e, prefix="construct:%s" % case["part"].get("via", case["part"]["how"]))
            return
        if not ddf.known_divisions:
            ctx.reject("divisions unknown")
            return
        if case.get("pre") == "filter":
            ddf, pdf = ddf[ddf["e"]], pdf[pdf["e"]]
        dx, px = _select(ddf, case["target"]), _select(pdf, case["target"])
        ctx.op(_family(op) + (".%s" % op["agg"] if op["op"] == "rolling" else ""))
        ctx.op("params:%s:%s" % (_family(op), _params(op)))
        if "fn" in op:
            ctx.op("fn:" + op["fn"])
        ctx.op("target:" + ("series" if isinstance(px, pd.Series) else "frame"))
        # ---- reference
        try:
            expected = _program(px, op, False)
        except Exception as e:  # noqa: BLE001
            ctx.reject("pandas: %s: %s" % (type(e).__name__, e))
            return
        # ---- input features (what the operation sees)
        try:
            parts = dask.compute(*dx.to_delayed(), scheduler="sync")
        except Exception as e:  # noqa: BLE001
            ctx.exception(e, prefix="input-partitions")
            return
        feats, lens = _part_features(parts, None)
        if _window_edge_row(parts, op):
            feats.append("row-exactly-at-window-edge")
        nparts = len(lens)
        ctx.nontrivial = nparts >= 2 and len(pdf) > 0
        for f in feats:
            ctx.count("inputs_with_" + f.replace("-", "_"))
        if any(n == 1 for n in lens):
            ctx.count("inputs_with_single_row_partition")
        if nparts >= 2:
            ctx.count("multi_partition_inputs")
        detail = {"partition_sizes": lens[:20], "divisions": [repr(d) for d in ddf.divisions][:12],
                  "features": feats, "target": case["target"], "op": op}
        # ---- dask
        if op["op"] == "pct_change" and not hasattr(dx, "pct_change"):
            ctx.count("pct_change_missing")
            ctx.unsupported("%s has no pct_change" % type(dx).__name__)
            return
        try:
            res = _program(dx, op, True)
            got = res.compute(scheduler="sync")
        except NotImplementedError as e:
            ctx.count("unsupported_window_exceeds_partition" if "Partition size is less" in str(e) else "unsupported_other")
            ctx.unsupported(str(e))
            return
        except Exception as e:  # noqa: BLE001
            ctx.exception(e, prefix=_exc_prefix(op), **detail)
            return
        ctx.count("compared")
        ctx.count("compared:" + op["op"])
        if nparts >= 2:
            ctx.count("compared_multi_partition")
        if case.get("family") == "regular":
            _regular_counts(ctx, case, op, feats, nparts)
        # an EMPTY pandas result keeps int64 where any non-empty one becomes float64 (shift/diff/rolling
        # introduce no NaN into zero rows); dask's meta cannot know the length -> dtype not demanded there
        m = frames.compare(got, expected, ordered=True, rtol=1e-9, check_dtype=len(expected) > 0)
        if m and _kind(m) == "dtype":
            # a dtype difference must not hide a value difference; and when the values differ as well the
            # dtype is (also) a consequence of them (NaN in an int column): report the values, keep "dtype"
            # for pure dtype differences
            m2 = frames.compare(got, expected, ordered=True, rtol=1e-9, check_dtype=False)
            if m2:
                m = m2
        if m:
            ctx.violation(_value_label(op, feats, px, _kind(m)), m[1],
                          got=_show(got), expected=_show(expected), **detail)
        ctx.sample = {"op": op, "partition_sizes": lens[:12], "features": feats}


def _window_edge_row(parts, op):
    """time windows: is there a row exactly at the far edge of the window of a partition's first / last row, in
    another partition?  (centered: last + w/2 or first - w/2; trailing: first - w)"""
    import pandas as pd

    if op["op"] == "rolling" and isinstance(op.get("window"), str):
        w, center = op["window"], op["center"]
    elif op["op"] == "map_overlap" and op.get("func") == "timewin":
        w, center = op["window"], op["center"]
    else:
        return False
    try:
        tw = pd.Timedelta(w)
    except ValueError:
        return False
    ne = [p for p in parts if len(p)]
    if len(ne) < 2 or not isinstance(ne[0].index, pd.DatetimeIndex):
        return False
    for i in range(len(ne)):
        first, last = ne[i].index.min(), ne[i].index.max()
        earlier = [q.index for q in ne[:i]]
        later = [q.index for q in ne[i + 1:]]
        if center:
            if any((last + tw / 2) in ix for ix in later) or any((first - tw / 2) in ix for ix in earlier):
                return True
        elif any((first - tw) in ix for ix in earlier):
            return True
    return False


def _regular_counts(ctx, case, op, feats, nparts):
    ctx.count("compared:regular")
    ctx.count("regular:" + op["op"])
    ctx.op("regular-freq:" + case["freq"])
    multi = nparts >= 2
    even = op["mult"] % 2 == 0
    if op["op"] == "rolling":
        ctx.op("regular-agg:" + op["agg"])
        if multi and op["center"]:
            ctx.count("regular_rolling_center_multi_partition")
            if even:
                ctx.count("regular_rolling_center_even_multiple")
        if multi and not op["center"]:
            ctx.count("regular_rolling_trailing_multi_partition")
        if op["min_periods"] is not None:
            ctx.count("regular_rolling_min_periods")
    else:
        ctx.op("regular-closed:%s" % op["closed"])
        if multi and op["center"]:
            ctx.count("regular_map_overlap_center_multi_partition")
        if multi and op["closed"] in ("left", "both", "neither"):
            ctx.count("regular_map_overlap_closed_nondefault")
    if multi and "row-exactly-at-window-edge" in feats:
        ctx.count("regular_compared_with_row_exactly_at_window_edge")
    ctx.distinct("regular_variants", [case["freq"], op["op"], op["center"], even, op.get("closed"), op["agg"]])


def _show(x):
    try:
        return x.head(12).to_string()[:700]
    except Exception:  # noqa: BLE001
        return repr(x)[:300]
