"""C27 — counting, set, search and histogram routines equal NumPy.

Monitor: NumPy differential.  Every case rebuilds small arrays from a JSON description, calls the real
dask.array routine (sync scheduler) and the NumPy routine on the same data and compares every returned array:
shape, dtype and values (NaN == NaN; float histogram weights/density within the reassociation tolerance), and the
lazy dtype/shape (nan sizes match anything) against the computed value.

Operations (signatures as in dask/array/routines.py):
  unique(ar, return_index, return_inverse, return_counts)      all 8 flag combinations, 1-d and n-d input
  bincount(x, weights, minlength, split_every)
  histogram(a, bins=int + range | explicit edges (ndarray, list, dask array), weights, density)
  histogram2d(x, y, bins=int | [int, int] (+ range) | [xedges, yedges], weights, density)
  histogramdd(sample (N, D) chunked on rows | tuple of 1-d arrays, same bin forms)
  digitize(a, bins increasing | decreasing, right)
  searchsorted(a sorted 1-d, v n-d, side)            (sorter= is documented unsupported: NotImplementedError)
  isin(element, test_elements dask | numpy, assume_unique (only when both really are unique), invert)
  nonzero / argwhere / flatnonzero, count_nonzero(axis)   (dask's count_nonzero has no keepdims parameter)
  ravel_multi_index(tuple of arrays | stacked array, dims, mode, order), unravel_index(indices, shape, order)
  coarsen(np.sum | np.max | np.min | np.mean | da.sum, x, axes dict, trim_excess)  vs reshape-and-reduce reference
  compress(condition list | ndarray | dask array, a, axis)
Inputs: integer / float arrays over small alphabets (duplicates), NaN in float data, random chunkings with
zero-length chunks inserted (e.g. ((0, 3, 0, 2),)), zero-length arrays.

Labels.  When a case violates, the module re-runs it with one input feature removed at a time (extra empty chunks on
axes of length <= 1 -> "short-axis-split", other empty chunks, NaN, zero-length axes); a feature stays in the label only
if its removal makes the same symptom disappear, so a label names the feature that matters and not whatever else the
random case contained.  nonzero/flatnonzero are labelled as argwhere and histogram2d as histogramdd (thin wrappers);
failures inside ravel()/reshape() of an n-d input are labelled "ravel" whichever routine called it; all symptoms of the
short-axis-split mechanism are collapsed per routine (see findings_proposed/C27.md, group I).

Calibration
* np.bincount(empty, weights=empty) returns int64 (NumPy's empty-input shortcut ignores the weights) while every
  non-empty weighted call returns float64; dask returns float64 throughout: dtype not compared for that input.
* assume_unique=True is only passed when both inputs really are unique (otherwise NumPy's own result is undefined).
* count_nonzero has no keepdims parameter in dask; ravel_multi_index/unravel_index support order= and mode=.
* coarsen is not a NumPy routine: reference = trim + reshape + reduce; no zero-length inputs (nothing defines them).
* histogram/histogramdd densities and fractional weights are compared within the reassociation tolerance, counts exactly.
* searchsorted(sorter=...) is documented unsupported and not generated; ravel() of some zero-length n-d chunkings
  raises NotImplementedError -> counted as unsupported.
* a wrong computed shape is reported once (not again as lazy-shape).

Parameter audit (second random stream, cases tagged "fam"; counters aud:<family>, all floored)
  dtype          int32 / uint8 / float32 (+NaN) / +-inf data, float32 / int32 weights, different dtypes of the two operands of
                 searchsorted and isin
  big            more than 255 elements (single chunks above 255: aud:chunk>255), more than 255 distinct values, values above 255,
                 counts above 255, 300-1000 rows for bincount / histogram / histogramdd / count_nonzero
  histforms      histogram: range= as list / ndarray / dask array of shape (2,) / lazy 0-d dask scalars / one lazy and one concrete /
                 delayed scalars; a lazy number of bins (0-d dask array); range= next to explicit edges; float32 weights
  ddforms        histogram2d / histogramdd: edges as lists / tuples, sequence of ints as tuple, range as lists / ndarray, the sample as
                 a list, fractional / float32 / int32 weights
  digitize_bins  bins as list / integer ndarray / float32 ndarray / empty
  ss_forms       searchsorted: sorter= on unsorted a (must be refused with NotImplementedError or honoured - never ignored), 0-d v
  aslike         NumPy arrays and nested lists where the routine converts its argument itself: isin(element), argwhere / nonzero /
                 flatnonzero / count_nonzero / compress(a)
  rmi_forms      ravel_multi_index: one mode per dimension, dims as list / ndarray, int32 indices, tuple members that broadcast
                 (Python int, NumPy array, length-1 axes); unravel_index: int32 / uint8 indices, shape as list
  coarsen_kw     coarsen: keyword arguments for the reduction (np.var ddof=1, np.std ddof=0, np.sum dtype=), np.prod, da.mean, da.max,
                 axes of length 9-24 (several blocks larger than the factor), a factor larger than the axis with trim_excess
State facet: every collection handed to a routine (from_array; its graph holds the blocks the kernels receive) is computed
again after the routine's result was computed and compared with the data it was built from - a kernel that writes into its argument
leaves the caller's collection changed
(``<op>:...:input-collection-modified``; counter inputs_unchanged_checked); bincount counts input:combine-level when there are more blocks
than split_every.
Calibration of the audit families
* float32 data with a NUMBER of bins: NumPy >= 2 returns float32 edges (result_type(range, a)) and computes density with float32
  widths, dask documents "bin_edges: dtype float" and returns the more accurate float64 values -> float32 data is only combined with
  explicit edges.
* np.median cannot reduce a zero-size block over several axes ("cannot reshape array of size 0") -> not used as a coarsen reduction.
* unravel_index(shape=ndarray) is outside the documented "tuple of ints" (dask evaluates ``if shape``) -> list / tuple only.
* a nested list of a zero-size n-d array does not keep its shape and has its own dtype: the reference gets the same list.
* bins / range as a plain Delayed sequence without nout= is ambiguous for dask (length unknown) and not generated; the lazy forms are
  the ones dask's own tests use (list of lazy scalars, dask arrays).

Sibling facet (vf/mon/siblings.py): every case is also built a second time with ONE result-relevant parameter changed
(another minlength / bins / range / density / right / side / invert / axis / mode / order / dims / coarsening factor, reduction or
reduction keyword).
The two lazily built collections must not share output keys unless their stand-alone values are equal (label
``<op>:<param>-not-in-name:siblings-share-keys``); for a seeded ~15 % of the cases both are also computed in one graph and
compared with their stand-alone values (``<op>:<param>:differs-when-computed-with-sibling``).  Counters siblings_built /
siblings_computed_together / siblings_with_different_values have floors.
"""
from __future__ import annotations

import random
import traceback
import warnings

import numpy as np

from ..core.ctx import CaseTimeout, exc_label, through_shim
from ..gen import arrays as A
from ..mon import siblings as S
from ..mon.compare import compare_arrays, lazy_meta_mismatch

PROP = "C27"
RULE = ("cases = (operation, input shapes 0-3 d with lengths 0-8, data alphabet/NaN seed, chunking with inserted empty "
        "chunks, per-operation parameters). Complete part: all 32 chunkings of a length-6 array over the alphabet "
        "{0,1,2} x {unique with all 8 optional-output combinations, bincount (minlength 0/5, weights), searchsorted "
        "(left/right), isin (invert), nonzero}. Parameter-audit part (own stream): narrow / mixed dtypes and +-inf, "
        "arrays above 255 elements, every accepted spelling of bins / range / edges / sample / dims / mode, NumPy and list "
        "arguments, reduction keyword arguments and long axes for coarsen, sorter= and 0-d v for searchsorted. "
        "non-trivial = some input axis split into >= 2 chunks; distinct = distinct case description without data seed.")
ASSUMPTIONS = ["NumPy 2.x defines the expected values, dtype and shape", "sync scheduler",
               "coarsen reference = trim, reshape to (n//k, k) per axis and reduce (harness code)"]
BUDGET = {"quick": 60, "thorough": 560}
CASE_TIMEOUT = 180
_OPF = {"unique": 520, "bincount": 370, "histogram": 250, "histogramdd": 270, "digitize": 135, "searchsorted": 300, "isin": 340,
        "argwhere": 450, "count_nonzero": 115, "ravel_multi_index": 135, "unravel_index": 115, "coarsen": 240, "compress": 250}
FLOORS = {"quick": {"evaluations": 1700, "distinct_nontrivial": 1200,
                    "counters": dict({"compared": 1600, "lazy_meta_checked": 2200, "input:empty-chunk": 550, "input:nan": 300,
                                      "input:zero-length": 160, "input:short-axis-split": 160},
                                     **{"ran:" + k: int(v * 0.4) for k, v in _OPF.items()}),
                    "max_skipped_fraction": 0.1},
          "thorough": {"evaluations": 25000, "distinct_nontrivial": 18000,
                       "counters": dict({"compared": 23000, "lazy_meta_checked": 32000, "input:empty-chunk": 8000, "input:nan": 4500,
                                         "input:zero-length": 2400, "input:short-axis-split": 2400},
                                        **{"ran:" + k: int((v - (256 if k == "unique" else 128 if k == "bincount" else 64 if k in ("searchsorted", "isin") else 0)) * 20 * 0.4)
                                           for k, v in _OPF.items()}),
                       "max_skipped_fraction": 0.1}}
# sibling facet (vf/mon/siblings.py): ~45 % of the smallest count of the five quick seeds on the unchanged tree; thorough =
# quick floor x (thorough / quick stream size) x 0.6.  A run in which the facet never executed is INCONCLUSIVE.
FLOORS["quick"]["counters"].update({"siblings_built": 1480, "siblings_computed_together": 210, "siblings_with_different_values": 245})
FLOORS["thorough"]["counters"].update({"siblings_built": 10500, "siblings_computed_together": 1550, "siblings_with_different_values": 1700})
# parameter-audit families and the classes inside them: ~45 % of the smallest count of the five quick seeds on the unchanged tree;
# thorough = quick floor x 10 (ratio of the audit streams) x 0.7
_AUD = {"aud:dtype": 85, "aud:big": 92, "aud:chunk>255": 32, "aud:histforms": 59, "aud:ddforms": 54, "aud:digitize_bins": 25,
        "aud:ss_forms": 33, "aud:aslike": 58, "aud:rmi_forms": 63, "aud:coarsen_kw": 60,
        "input:range=lazy": 8, "input:range=dask": 4, "input:range=delayed-scalars": 4, "input:bins=int-dask0d": 5, "input:range+edges": 9,
        "input:sorter": 15, "input:kwargs": 14, "input:long-axis": 39, "input:members-broadcast": 13, "input:mode=per-dim": 13,
        "input:a=numpy": 29, "input:a=list": 12, "input:element=numpy": 4, "input:element=list": 7, "input:sample_kind=list": 29,
        "input:edges_kind=list": 14, "input:edges_kind=tuple": 17, "input:index=int32": 9, "input:bins=empty": 3, "input:bins=list": 4,
        "input:combine-level": 22, "inputs_unchanged_checked": 3100}
FLOORS["quick"]["counters"].update(_AUD)
FLOORS["thorough"]["counters"].update({k: int(v * 7) for k, v in _AUD.items()})
FLOORS["quick"].update({"evaluations": 2100, "distinct_nontrivial": 1550})
FLOORS["quick"]["counters"].update({"compared": 2100, "lazy_meta_checked": 2900})
FLOORS["thorough"].update({"evaluations": 33000, "distinct_nontrivial": 22500})
FLOORS["thorough"]["counters"].update({"compared": 32700, "lazy_meta_checked": 44000, "siblings_built": 23500,
                                       "siblings_computed_together": 3500, "siblings_with_different_values": 4000})
EXHAUSTIVE_SPACE = ("all 32 chunkings of a length-6 array with pattern over {0,1,2} x {unique x 8 optional-output "
                    "combinations, bincount x minlength {0,5} x weights {no,yes}, searchsorted x side {left,right}, "
                    "isin x invert, nonzero}")
CLAIM = ("Every generated call of the listed counting/set/search/histogram routines was executed by the real dask.array "
         "code and compared with NumPy on the same data (all returned arrays: shape, dtype, values) and with its own lazy "
         "dtype/shape; held = no mismatch and no dask exception inside the domain on the executions observed.")
LEVEL_NOTE = "NumPy is the reference; domain limited to parameters in dask's signatures and the statement's list"
TECHNIQUE = "runtime monitoring: NumPy differential oracle over generated inputs (empty chunks, NaN, duplicates) and a complete small chunking space"

PENDING = {
    "bincount:minlength>0&max(x)>=minlength:lazy-shape":
        "bincount(minlength=m) declares shape (m,) although the computed result is longer when max(x) >= m (values are right)",
    "ravel:empty-chunk&nd>1:ValueError@utils.py:__call__":
        "ravel()/reshape(-1) of an n-d array whose first axis has an interior empty chunk: 'cannot reshape array of size 0 into shape (k,)' (reached through unique/argwhere/flatnonzero/nonzero/compress(axis=None))",
    "ravel:zero-length&nd>1:Error@array/reshape.py:reshape_rechunk":
        "ravel() of an n-d array with a zero-length axis and another axis in several chunks: reduce() of empty iterable in reshape_rechunk",
    "ravel:empty-chunk&nd>1:Error@array/reshape.py:reshape_rechunk":
        "ravel() of a 3-d array of shape (1, 1, 1) whose first axis is chunked (0, 1): IndexError 'tuple index out of range' in reshape_rechunk",
    "searchsorted:empty-chunk&v-nd>1:ValueError@array/core.py:concatenate3":
        "searchsorted with n-d v that has empty chunks: out.max(axis=0) fails in concatenate3 (could not broadcast input array)",
    "searchsorted:empty-chunk&v-nd>1:shape": "same mechanism, wrong result shape instead of an exception",
    "searchsorted:zero-length&v-nd>1:shape": "searchsorted with n-d zero-size v returns shape (1, 0) instead of v.shape",
    # one mechanism for the next six: unify_chunks/blockwise treat an axis of length <= 1 as broadcastable and rechunk it
    # to a single block even when it carries extra empty chunks, e.g. chunks (1, 0) or (0, 0): blocks are duplicated / missing
    "argwhere:short-axis-split:mismatch-or-error": "argwhere/nonzero/flatnonzero on a length-1 axis chunked (1, 0): the index is returned twice",
    "isin:short-axis-split:mismatch-or-error": "isin: AxisError/ValueError in _concatenate2 when element or test_elements has a length<=1 axis with extra empty chunks",
    "searchsorted:short-axis-split:mismatch-or-error": "searchsorted: Missing dependency / wrong shape / wrong values for such chunkings of a or v",
    "unique:short-axis-split:mismatch-or-error": "unique(return_inverse=True): Missing dependency / AxisError / key strings leaking into the result",
    "compress:short-axis-split:mismatch-or-error": "compress with a dask condition chunked (1, 0): key strings leak into concatenate3 / wrong shape",
    "ravel_multi_index:short-axis-split:mismatch-or-error": "ravel_multi_index(tuple of zero-length arrays chunked (0,) and (0, 0)): 'Chunks do not align'",
    # found by the parameter audit (fixes_ready/C27_06 .. C27_08)
    "coarsen:factor>length:ValueError@array/core.py:normalize_chunks":
        "coarsen(trim_excess=True) with a factor larger than the axis: 'Empty tuples are not allowed in chunks' instead of a zero-length axis",
    "coarsen:kwargs-not-in-name:siblings-share-keys":
        "coarsen leaves the reduction's **kwargs (ddof=, dtype=) out of its token: two results that differ only there share a name",
    "coarsen:kwargs:differs-when-computed-with-sibling": "same mechanism, seen as a wrong value when both are computed in one graph",
    "searchsorted:v-0d:TypeError@array/routines.py:_searchsorted_block":
        "searchsorted with a 0-d v: the per-block kernel assigns into the NumPy scalar np.searchsorted returns",
}

OPS = ["unique", "unique", "bincount", "bincount", "histogram", "histogram", "histogram2d", "histogramdd", "digitize",
       "searchsorted", "searchsorted", "isin", "isin", "nonzero", "argwhere", "flatnonzero", "count_nonzero",
       "ravel_multi_index", "unravel_index", "coarsen", "coarsen", "compress", "compress"]
PATTERN = [1, 0, 2, 2, 0, 1]


# ---------------------------------------------------------------------------------------------------------
# generation
# ---------------------------------------------------------------------------------------------------------
def _cd(c):
    return [list(a) for a in c]


def _echunks(rng, shape, p=0.35):
    """Random chunking; with probability p zero-length chunks are inserted on an axis."""
    out = []
    for n in shape:
        c = list(A.rand_comp(rng, n))
        if n and rng.random() < p:
            for _ in range(rng.randint(1, 2)):
                c.insert(rng.randint(0, len(c)), 0)
        elif n == 0 and rng.random() < 0.3:
            c = [0, 0]
        out.append(c)
    return out


def _shape(rng, minnd=1, maxnd=3, zero=0.08):
    nd = rng.choice([d for d in (1, 1, 1, 2, 2, 3) if minnd <= d <= maxnd])
    return [0 if rng.random() < zero else rng.choice((1, 2, 3, 4, 5, 6, 8)) for _ in range(nd)]


def _arr(rng, shape=None, vals=None, **kw):
    shape = _shape(rng, **kw) if shape is None else shape
    vals = vals or rng.choice(("alpha3", "int", "int", "float", "floatnan", "floatnan"))
    return {"shape": list(shape), "chunks": _echunks(rng, shape), "vals": vals, "seed": rng.randrange(2 ** 31)}


def cases(tier, seed):
    rng = random.Random(seed * 6151 + 27)
    # ---- complete sub-space -------------------------------------------------------------------------------
    for ch in A.all_chunkings((6,)):
        a = {"shape": [6], "chunks": _cd(ch), "vals": "pattern", "seed": 0}
        for flags in range(8):
            yield {"space": "exhaustive", "op": "unique", "a": a, "flags": flags}
        for ml in (0, 5):
            for w in (False, True):
                yield {"space": "exhaustive", "op": "bincount", "a": a, "minlength": ml, "weights": "float" if w else None,
                       "split_every": None, "wseed": 5}
        for side in ("left", "right"):
            yield {"space": "exhaustive", "op": "searchsorted", "a": dict(a, vals="pattern-sorted"), "side": side,
                   "v": {"shape": [5], "chunks": [[2, 3]], "vals": "probe", "seed": 0}}
        for inv in (False, True):
            yield {"space": "exhaustive", "op": "isin", "a": a, "invert": inv, "assume_unique": False, "tkind": "dask",
                   "t": {"shape": [2], "chunks": [[1, 1]], "vals": "probe2", "seed": 0}}
        yield {"space": "exhaustive", "op": "nonzero", "a": a}
    # ---- random part ----------------------------------------------------------------------------------------
    n = 3000 if tier == "quick" else 60000
    for _ in range(n):
        op = rng.choice(OPS)
        yield globals()["_g_" + op](rng)
    # ---- parameter-audit part: value classes of the named parameters the random part above never produces ------
    # (own random stream, so the cases above stay what they were)
    arng = random.Random(seed * 7919 + 2727)
    for _ in range(1300 if tier == "quick" else 13000):
        fam = arng.choice(AUDIT)
        c = globals()["_a_" + fam](arng)
        c["fam"] = fam
        yield c


def _g_unique(rng):
    return {"op": "unique", "a": _arr(rng), "flags": rng.randrange(8)}


def _g_bincount(rng):
    a = _arr(rng, maxnd=1, vals=rng.choice(("alpha3", "nonneg")))
    return {"op": "bincount", "a": a, "minlength": rng.choice((0, 0, 1, 3, 5, 9)),
            "weights": rng.choice((None, None, "float", "int", "frac")), "split_every": rng.choice((None, None, 2, 3)),
            "wseed": rng.randrange(1000)}


def _bins(rng):
    kind = rng.choice(("int", "int", "edges", "edges", "edges-list", "edges-dask"))
    if kind == "int":
        lo = rng.choice((-2, -1, 0, 0.5))
        return {"kind": "int", "n": rng.randint(1, 6), "range": [lo, lo + rng.choice((0.5, 1, 2, 3, 4.5))]}
    k = rng.randint(2, 6)
    edges = sorted(set(rng.choice((-3, -2, -1.5, -1, -0.5, 0, 0.5, 1, 1.5, 2, 2.5, 3)) for _ in range(k)))
    if len(edges) < 2:
        edges = [edges[0], edges[0] + 1]
    if rng.random() < 0.4 and all(float(e).is_integer() for e in edges):
        edges = [int(e) for e in edges]
    return {"kind": kind, "edges": edges}


def _g_histogram(rng):
    a = _arr(rng, vals=rng.choice(("int", "float", "floatnan", "alpha3")))
    return {"op": "histogram", "a": a, "bins": _bins(rng), "weights": rng.choice((None, None, "float", "int", "frac")),
            "density": rng.choice((None, None, False, True)), "wseed": rng.randrange(1000)}


def _g_histogram2d(rng):
    a = _arr(rng, maxnd=1, vals=rng.choice(("int", "float", "floatnan")))
    b = dict(a, seed=rng.randrange(2 ** 31), vals=rng.choice(("int", "float")))
    form = rng.choice(("int", "ints", "edges"))
    if form != "edges":
        bx = dict(_bins1int(rng))
        by = dict(_bins1int(rng))
        if form == "int":
            by["n"] = bx["n"]
    else:
        bx, by = _bins1edges(rng), _bins1edges(rng)
    return {"op": "histogram2d", "a": a, "b": b, "form": form, "bx": bx, "by": by,
            "weights": rng.choice((None, None, "float", "int")), "density": rng.choice((None, False, True)),
            "wseed": rng.randrange(1000)}


def _bins1int(rng):
    while True:
        b = _bins(rng)
        if b["kind"] == "int":
            return b


def _bins1edges(rng):
    while True:
        b = _bins(rng)
        if b["kind"] != "int":
            return dict(b, kind="edges")


def _g_histogramdd(rng):
    D = rng.randint(1, 3)
    rect = rng.random() < 0.5
    n = 0 if rng.random() < 0.06 else rng.choice((1, 2, 3, 5, 8))
    rows = _echunks(rng, [n])[0]
    form = rng.choice(("int", "ints", "edges"))
    bins = [_bins1edges(rng) if form == "edges" else _bins1int(rng) for _ in range(D)]
    if form == "int":
        for b in bins:
            b["n"] = bins[0]["n"]
    return {"op": "histogramdd", "rect": rect, "n": n, "D": D, "rows": rows, "vals": rng.choice(("int", "float", "floatnan")),
            "seed": rng.randrange(2 ** 31), "form": form, "bins": bins, "weights": rng.choice((None, None, "float", "int")),
            "density": rng.choice((None, False, True)), "wseed": rng.randrange(1000)}


def _g_digitize(rng):
    k = rng.randint(1, 5)
    strict = rng.random() < 0.7
    pool = [-3, -2, -1, -0.5, 0, 0.5, 1, 2, 3]
    edges = sorted(rng.sample(pool, k)) if strict else sorted(rng.choice(pool) for _ in range(k))
    if rng.random() < 0.4:
        edges = edges[::-1]
    return {"op": "digitize", "a": _arr(rng, vals=rng.choice(("int", "float", "floatnan"))), "edges": edges,
            "right": rng.random() < 0.5}


def _g_searchsorted(rng):
    a = _arr(rng, maxnd=1, vals=rng.choice(("int-sorted", "float-sorted", "floatnan-sorted", "alpha3-sorted")))
    v = _arr(rng, vals="int" if a["vals"].startswith(("int", "alpha")) else rng.choice(("float", "floatnan")))
    return {"op": "searchsorted", "a": a, "v": v, "side": rng.choice(("left", "right"))}


def _g_isin(rng):
    a = _arr(rng, vals=rng.choice(("int", "alpha3", "float", "floatnan")))
    t = _arr(rng, maxnd=2, vals="int" if a["vals"] in ("int", "alpha3") else "float")
    return {"op": "isin", "a": a, "t": t, "tkind": rng.choice(("dask", "dask", "numpy", "list")),
            "invert": rng.random() < 0.4, "assume_unique": rng.random() < 0.35}


def _g_nonzero(rng, op="nonzero"):
    return {"op": op, "a": _arr(rng, vals=rng.choice(("alpha3", "bool", "floatnan", "int")))}


def _g_argwhere(rng):
    return _g_nonzero(rng, "argwhere")


def _g_flatnonzero(rng):
    return _g_nonzero(rng, "flatnonzero")


def _g_count_nonzero(rng):
    a = _arr(rng, vals=rng.choice(("alpha3", "bool", "floatnan", "int")))
    nd = len(a["shape"])
    axis = rng.choice([None] + list(range(-nd, nd)) + ([[0, nd - 1]] if nd >= 2 else []) + ([list(range(nd))]))
    return {"op": "count_nonzero", "a": a, "axis": axis}


def _g_ravel_multi_index(rng):
    nd = rng.randint(1, 3)
    dims = [rng.randint(1, 5) for _ in range(nd)]
    ish = _shape(rng, maxnd=2)
    mode = rng.choice(("raise", "raise", "wrap", "clip"))
    return {"op": "ravel_multi_index", "dims": dims, "ishape": ish, "chunks": [_echunks(rng, ish) for _ in range(nd)],
            "stacked": rng.random() < 0.4, "schunks": _echunks(rng, [nd] + ish), "mode": mode, "order": rng.choice(("C", "C", "F")),
            "seed": rng.randrange(2 ** 31), "scalar_dims": nd == 1 and rng.random() < 0.3}


def _g_unravel_index(rng):
    nd = rng.randint(1, 3)
    dims = [rng.randint(1, 5) for _ in range(nd)]
    ish = _shape(rng, maxnd=2)
    return {"op": "unravel_index", "dims": dims, "ishape": ish, "chunks": _echunks(rng, ish), "order": rng.choice(("C", "C", "F")),
            "seed": rng.randrange(2 ** 31)}


def _g_coarsen(rng):
    a = _arr(rng, vals=rng.choice(("int", "float", "floatnan")), zero=0.0)    # coarsen is not a NumPy routine: no zero-length
    nd = len(a["shape"])
    trim = rng.random() < 0.5
    axes = {}
    for ax in range(nd):
        if rng.random() < 0.75:
            n = a["shape"][ax]
            if trim:
                axes[str(ax)] = rng.randint(1, max(1, n))
            else:
                divs = [k for k in range(1, n + 1) if n % k == 0] or [rng.randint(1, 3)]
                axes[str(ax)] = rng.choice(divs)
    return {"op": "coarsen", "a": a, "axes": axes, "trim_excess": trim,
            "red": rng.choice(("sum", "sum", "max", "min", "mean", "da.sum"))}


def _g_compress(rng):
    a = _arr(rng)
    nd = len(a["shape"])
    axis = rng.choice([None] + list(range(-nd, nd)))
    n = int(np.prod(a["shape"])) if axis is None else a["shape"][axis]
    ln = rng.choice((n, n, n, max(0, n - 1), max(0, n - 2), 0))
    return {"op": "compress", "a": a, "axis": axis, "clen": ln, "ckind": rng.choice(("list", "numpy", "dask", "dask", "int-numpy")),
            "cchunks": _echunks(rng, [ln])[0], "cseed": rng.randrange(2 ** 31)}



# ---------------------------------------------------------------------------------------------------------
# parameter-audit families (see the docstring section "Parameter audit")
# ---------------------------------------------------------------------------------------------------------
AUDIT = ["dtype", "dtype", "dtype", "big", "big", "big", "histforms", "histforms", "ddforms", "ddforms", "digitize_bins",
         "ss_forms", "aslike", "aslike", "rmi_forms", "rmi_forms", "coarsen_kw", "coarsen_kw"]
DTYPES = ("int32", "uint8", "float32", "floatnan32", "floatinf")


def _a_dtype(rng):
    """Narrow integer / float32 dtypes, +-inf, and mixed dtypes between the two operands."""
    op = rng.choice(("unique", "unique", "bincount", "histogram", "digitize", "searchsorted", "searchsorted", "isin", "isin",
                     "argwhere", "nonzero", "flatnonzero", "count_nonzero", "compress"))
    c = globals()["_g_" + op](rng)
    dt = rng.choice(DTYPES)
    if op == "bincount":
        c["weights"] = rng.choice(("float32", "int32"))
    elif op == "searchsorted":
        c["a"]["vals"] = dt + "-sorted"
        c["v"]["vals"] = rng.choice(("int", "float", "int32") if dt in ("int32", "uint8") else ("float", "float32", "floatinf", "floatnan", "int"))
    elif op == "isin":
        c["a"]["vals"] = dt
        c["t"]["vals"] = rng.choice(("int", "float", "int32", "float32", "uint8"))
    else:
        c["a"]["vals"] = dt
        if op == "histogram" and dt.endswith("32"):
            while c["bins"]["kind"] == "int":       # see Calibration: float32 data with a number of bins
                c["bins"] = _bins(rng)
    return c


def _bigchunks(rng, n):
    fl = rng.choice(("one", "two", "irregular", "irregular", "regular"))
    if fl == "regular":
        k = rng.randint(max(1, n // 6), n)
        c = [k] * (n // k) + ([n % k] if n % k else [])
    else:
        c = list(A.rand_comp(rng, n, fl))
    if rng.random() < 0.3:
        c.insert(rng.randint(0, len(c)), 0)
    return c


def _big_arr(rng, vals, sizes=(257, 300, 384, 420), nd2=0.0):
    if rng.random() < nd2:
        shape = list(rng.choice(((17, 19), (20, 16), (3, 100), (130, 2))))
    else:
        shape = [rng.choice(sizes)]
    return {"shape": shape, "chunks": [_bigchunks(rng, n) for n in shape], "vals": vals, "seed": rng.randrange(2 ** 31)}


def _a_big(rng):
    """More than 255 elements (one chunk may hold more than 255), more than 255 distinct values, counts above 255."""
    op = rng.choice(("unique", "unique", "bincount", "bincount", "histogram", "histogramdd", "digitize", "searchsorted", "searchsorted",
                     "isin", "argwhere", "nonzero", "flatnonzero", "count_nonzero", "compress", "ravel_multi_index", "unravel_index"))
    c = globals()["_g_" + op](rng)
    many = (300, 600, 1000)
    if op == "unique":
        c["a"] = _big_arr(rng, rng.choice(("wide", "wide", "widefloat", "alpha3")), nd2=0.25)
    elif op == "bincount":
        c["a"] = _big_arr(rng, rng.choice(("wide", "alpha3")), sizes=many)
        c["minlength"] = rng.choice((0, 0, 5, 300, 700))
    elif op == "histogram":
        c["a"] = _big_arr(rng, rng.choice(("alpha3", "int", "floatnan")), sizes=many, nd2=0.2)
    elif op == "histogramdd":
        c["n"] = rng.choice(many)
        c["rows"] = _bigchunks(rng, c["n"])
        c["vals"] = rng.choice(("alpha3", "int", "float"))
    elif op == "digitize":
        c["a"] = _big_arr(rng, rng.choice(("int", "floatnan")), nd2=0.3)
    elif op == "searchsorted":
        c["a"] = _big_arr(rng, rng.choice(("wide-sorted", "wide-sorted", "widefloat-sorted", "alpha3-sorted")))
        vv = "wide" if c["a"]["vals"].startswith(("wide-", "alpha3")) else "widefloat"
        c["v"] = _big_arr(rng, vv, sizes=(5, 40, 300), nd2=0.2)
    elif op == "isin":
        c["a"] = _big_arr(rng, rng.choice(("wide", "widefloat")), nd2=0.2)
        c["t"] = _big_arr(rng, "wide" if c["a"]["vals"] == "wide" else "widefloat", sizes=(3, 40, 300))
    elif op in ("argwhere", "nonzero", "flatnonzero", "count_nonzero"):
        c["a"] = _big_arr(rng, rng.choice(("bool", "alpha3")), sizes=many if op == "count_nonzero" else (257, 300, 420), nd2=0.3)
        if op == "count_nonzero":
            nd = len(c["a"]["shape"])
            c["axis"] = rng.choice([None] + list(range(-nd, nd)))
    elif op == "compress":
        c["a"] = _big_arr(rng, "wide", nd2=0.3)
        nd = len(c["a"]["shape"])
        c["axis"] = rng.choice([None] + list(range(-nd, nd)))
        n = int(np.prod(c["a"]["shape"])) if c["axis"] is None else c["a"]["shape"][c["axis"]]
        c["clen"] = rng.choice((n, n, max(0, n - 3)))
        c["cchunks"] = _bigchunks(rng, c["clen"]) if c["clen"] else [0]
    elif op == "ravel_multi_index":
        c["dims"] = [rng.choice((20, 30, 300)) for _ in c["dims"]]
        c["ishape"] = [rng.choice((257, 300))]
        c["chunks"] = [[_bigchunks(rng, c["ishape"][0])] for _ in c["dims"]]
        c["schunks"] = [A.rand_comp(rng, len(c["dims"])), _bigchunks(rng, c["ishape"][0])]
        c["schunks"] = [list(c["schunks"][0]), c["schunks"][1]]
    elif op == "unravel_index":
        c["dims"] = [rng.choice((17, 23, 300)) for _ in c["dims"]]
        c["ishape"] = [rng.choice((257, 300))]
        c["chunks"] = [_bigchunks(rng, c["ishape"][0])]
    c["big"] = True
    return c


def _a_histforms(rng):
    """histogram: every accepted form of range= (list, ndarray, dask array, lazy scalars), a lazy number of bins, range= given next
    to explicit edges (NumPy ignores it), float32 weights."""
    c = _g_histogram(rng)
    form = rng.choice(("range", "range", "range", "nbins-lazy", "range+edges", "weights32"))
    if form in ("range", "nbins-lazy"):
        while c["bins"]["kind"] != "int":
            c["bins"] = _bins(rng)
        if form == "range":
            c["range_kind"] = rng.choice(("list", "ndarray", "dask", "lazy", "mixed", "delayed-scalars"))
        else:
            c["bins"] = dict(c["bins"], kind="int-dask0d")
            c["density"] = rng.choice((None, False))      # documented: NotImplementedError with density=True
            c["range_kind"] = rng.choice(("tuple", "lazy"))
    elif form == "range+edges":
        while c["bins"]["kind"] == "int":
            c["bins"] = _bins(rng)
        lo = rng.choice((-1, 0, 0.5))
        c["extra_range"] = [lo, lo + rng.choice((0.5, 1, 2))]
    else:
        c["weights"] = "float32"
    c["form"] = form
    return c


def _a_ddforms(rng):
    """histogram2d / histogramdd: edges as lists / tuples, range as lists / ndarray, the sample as a list, fractional and float32 weights."""
    c = _g_histogram2d(rng) if rng.random() < 0.45 else _g_histogramdd(rng)
    c["edges_kind"] = rng.choice(("list", "tuple", "ndarray-in-tuple"))
    c["range_kind"] = rng.choice(("list", "ndarray", "tuple"))
    c["sample_kind"] = rng.choice(("list", "tuple"))
    c["weights"] = rng.choice((None, "frac", "frac", "float32", "int32"))
    return c


def _a_digitize_bins(rng):
    c = _g_digitize(rng)
    c["bins_kind"] = rng.choice(("list", "int-ndarray", "float32", "empty"))
    if c["bins_kind"] == "int-ndarray":
        c["edges"] = sorted({int(e) for e in c["edges"]}, reverse=len(c["edges"]) > 1 and c["edges"][0] > c["edges"][-1])
    elif c["bins_kind"] == "empty":
        c["edges"] = []
    return c


def _a_ss_forms(rng):
    """searchsorted: sorter= (documented unsupported: must be refused, not ignored) and a 0-d v."""
    c = _g_searchsorted(rng)
    if rng.random() < 0.5:
        c["sorter"] = True
        if 0 in c["a"]["shape"] or c["a"]["shape"][0] < 3:
            c["a"] = _arr(rng, shape=[rng.choice((3, 5, 8))], vals=c["a"]["vals"])
    else:
        c["v"] = dict(c["v"], shape=[], chunks=[])
    return c


def _a_aslike(rng):
    """NumPy arrays / lists where the routine converts its argument itself (asarray)."""
    op = rng.choice(("isin", "isin", "argwhere", "nonzero", "flatnonzero", "count_nonzero", "compress", "compress"))
    c = globals()["_g_" + op](rng)
    if op == "isin":
        c["ekind"] = rng.choice(("numpy", "list"))
    else:
        c["akind"] = rng.choice(("numpy", "numpy", "list"))
        if op == "compress":
            c["ckind"] = rng.choice(("dask", "dask", "numpy", "list"))
    return c


def _a_rmi_forms(rng):
    """ravel_multi_index: a mode per dimension, dims as list / ndarray, int32 indices, tuple members that broadcast
    (a Python int, a NumPy array, length-1 axes); unravel_index: int32 indices, shape as a list."""
    if rng.random() < 0.3:
        c = _g_unravel_index(rng)
        c["idtype"] = rng.choice(("int32", "int64", "uint8"))
        c["dims_kind"] = rng.choice(("list", "list", "tuple"))        # documented: tuple of ints
        return c
    c = _g_ravel_multi_index(rng)
    form = rng.choice(("mode", "mode", "dims", "idtype", "members", "members"))
    nd = len(c["dims"])
    if form == "mode":
        c["mode"] = [rng.choice(("raise", "wrap", "clip")) for _ in range(nd)]
    elif form == "dims":
        c["dims_kind"] = rng.choice(("list", "ndarray"))
        c["scalar_dims"] = False
    elif form == "idtype":
        c["idtype"] = "int32"
    else:
        c["stacked"] = False
        mem = [rng.choice(("dask", "numpy", "scalar", "ones")) for _ in range(nd)]
        if all(m != "dask" for m in mem):
            mem[rng.randrange(nd)] = "dask"
        c["members"] = mem
        c["ones_mask"] = [[rng.random() < 0.5 for _ in c["ishape"]] for _ in range(nd)]
    c["form"] = form
    return c


def _a_coarsen_kw(rng):
    """coarsen: keyword arguments forwarded to the reduction, further reductions, axes much longer than the factor, a factor
    larger than the axis with trim_excess (empty result)."""
    c = _g_coarsen(rng)
    u = rng.random()
    if u < 0.55:
        c["red"] = rng.choice(("var1", "std0", "sumf64", "prod", "da.mean", "da.max", "var1"))
        if c["red"] == "prod":
            c["a"]["vals"] = "int"           # exact whatever the order of the multiplications
    if u > 0.35:
        nd = rng.choice((1, 1, 2))
        shape = [rng.choice((9, 10, 12, 15, 16, 20, 24)) for _ in range(nd)]
        c["a"] = _arr(rng, shape=shape, vals=c["a"]["vals"])
        trim = c["trim_excess"]
        axes = {}
        for ax, n in enumerate(shape):
            if rng.random() < 0.8:
                axes[str(ax)] = rng.randint(1, n) if trim else rng.choice([k for k in range(1, n + 1) if n % k == 0])
        c["axes"] = axes
        c["long"] = True
    if rng.random() < 0.06:
        ax = rng.randrange(len(c["a"]["shape"]))
        c["trim_excess"] = True
        c["axes"] = dict(c["axes"])
        c["axes"][str(ax)] = c["a"]["shape"][ax] + rng.randint(1, 3)
    return c

# ---------------------------------------------------------------------------------------------------------
# data
# ---------------------------------------------------------------------------------------------------------
def _data(desc):
    shape = tuple(desc["shape"])
    n = int(np.prod(shape)) if shape else 1
    r = np.random.default_rng(desc["seed"])
    vals = desc["vals"]
    srt = vals.endswith("-sorted")
    base = vals[:-7] if srt else vals
    if base == "pattern":
        a = np.array(PATTERN, dtype="int64")
    elif base == "probe":
        a = np.array([0, 1, 2, 3, -1], dtype="int64")
    elif base == "probe2":
        a = np.array([2, 5], dtype="int64")
    elif base == "alpha3":
        a = r.integers(0, 3, n).astype("int64")
    elif base == "nonneg":
        a = r.integers(0, 7, n).astype(r.choice(["int64", "int32", "uint8"]))
    elif base == "int":
        a = r.integers(-3, 4, n).astype("int64")
    elif base == "bool":
        a = r.integers(0, 2, n).astype(bool)
    elif base in ("float", "floatnan", "float32", "floatnan32", "floatinf"):
        a = (r.integers(-6, 7, n) / 2).astype("float32" if base.endswith("32") else "float64")
        if base.startswith("floatnan") and n:
            k = int(r.integers(1, max(2, n // 3 + 1)))
            a[r.integers(0, n, k)] = np.nan
        if base == "floatinf" and n:
            k = int(r.integers(1, max(2, n // 3 + 1)))
            a[r.integers(0, n, k)] = r.choice([np.inf, -np.inf], k)
    elif base == "int32":
        a = r.integers(-3, 4, n).astype("int32")
    elif base == "uint8":
        a = r.integers(0, 7, n).astype("uint8")
    elif base == "wide":
        a = r.integers(0, max(n, 260) + 40, n).astype("int64")      # more than 255 distinct values, values above 255
    elif base == "widefloat":
        a = (r.integers(-max(n, 260), max(n, 260), n) / 2).astype("float64")
    else:
        raise AssertionError(vals)
    if srt:
        a = np.sort(a)
    return a.reshape(shape)


def _chunks(desc):
    return tuple(tuple(c) for c in desc["chunks"])


_REG = []      # (snapshot of the data, dask collection built from it) of the case being evaluated - see _evaluate


def _fa(x, chunks):
    """da.from_array, remembering the collection: a routine must leave the collections it was given as they were."""
    import dask.array as da

    d = da.from_array(x, chunks=chunks)
    _REG.append((np.array(x, copy=True), d))
    return d


def _da(desc):
    x = _data(desc)
    return x, _fa(x, _chunks(desc))


def _weights(kind, wseed, shape):
    r = np.random.default_rng(wseed)
    n = int(np.prod(shape)) if len(shape) else 1
    if kind in ("int", "int32"):
        w = r.integers(-2, 5, n).astype("int64" if kind == "int" else "int32")
    elif kind in ("float", "float32"):
        w = (r.integers(-4, 9, n) / 4).astype("float64" if kind == "float" else "float32")       # exactly summable
    else:
        w = r.random(n)                                          # needs the reassociation tolerance
    return w.reshape(shape)


def _input_features(*arrs_chunks):
    """Domain features of the inputs that go into labels (boolean predicates only)."""
    f = set()
    for x, chunks in arrs_chunks:
        if x is not None:
            if 0 in np.shape(x):
                f.add("zero-length")
            elif np.asarray(x).dtype.kind == "f" and np.isnan(x).any():
                f.add("nan")
        if chunks is not None:
            if any(sum(c) <= 1 and len(c) > 1 for c in chunks):
                f.add("short-axis-split")       # an axis of length 0 or 1 carrying extra empty chunks, e.g. (1, 0), (0, 0)
            if any(0 in c and sum(c) > 1 for c in chunks):
                f.add("empty-chunk")
    return "&".join(sorted(f)) or "plain"


# ---------------------------------------------------------------------------------------------------------
# run
# ---------------------------------------------------------------------------------------------------------
class _Reject(Exception):
    pass


def run_case(case, ctx):
    with warnings.catch_warnings():
        warnings.simplefilter("ignore")
        with np.errstate(all="ignore"):
            _run(case, ctx)


def _evaluate(case):
    """Run one case.  Returns dict(status ok|reject|unsupported, reason, plan, findings, shapes) where findings is a
    list of dict(who, sym, msg, detail)."""
    op = case["op"]
    out = {"status": "ok", "reason": None, "plan": None, "findings": [], "shapes": [], "lazy_checked": 0}
    del _REG[:]
    try:
        plan = globals()["_p_" + op](case)
    except _Reject as ex:
        return dict(out, status="reject", reason=str(ex))
    # plan: dict(label, feat, params, nontrivial, ref=callable -> arrays, run=callable -> dask arrays, names, tol)
    out["plan"] = plan
    label = plan["label"]
    try:
        expected = plan["ref"]()
    except Exception as ex:  # noqa: BLE001
        return dict(out, status="reject", reason="numpy: %s: %s" % (type(ex).__name__, ex))
    import dask

    try:
        lazy = plan["run"]()
        lazy = tuple(lazy) if isinstance(lazy, (tuple, list)) else (lazy,)
        values = dask.compute(*lazy, scheduler="sync")
    except NotImplementedError as ex:
        return dict(out, status="unsupported", reason=str(ex))
    except CaseTimeout:
        raise
    except Exception as ex:  # noqa: BLE001
        tb = "".join(traceback.format_exception(type(ex), ex, ex.__traceback__))[-3000:]
        site = exc_label(ex)
        who = label
        if "reshape.py" in site or str(ex).startswith("cannot reshape array"):
            who = "ravel"        # the failure is inside ravel()/reshape() of an n-d input, whatever routine called it
        out["findings"].append({"who": who, "sym": site, "msg": "%s: %s" % (type(ex).__name__, str(ex)[:400]),
                                "detail": {"traceback": tb}, "shim": through_shim(ex)})
        return out
    expected = tuple(expected) if isinstance(expected, (tuple, list)) else (expected,)
    out["compared"] = True
    # STATE: the graph of a from_array collection holds its blocks and hands those very objects to the kernels (sync
    # scheduler).  A kernel that writes into its argument leaves the caller's collection changed for every later use, so
    # the collections the routine was given are computed again afterwards and compared with the data they were built from.
    bases = list(_REG)
    out["inputs_checked"] = len(bases)
    try:
        again = dask.compute(*[d for _, d in bases], scheduler="sync") if bases else ()
    except CaseTimeout:
        raise
    except Exception as ex:  # noqa: BLE001
        again = None
        out["findings"].append({"who": label, "sym": "input-collection-modified", "msg": "an input collection cannot be computed after the routine ran: %s: %s" % (type(ex).__name__, str(ex)[:200]), "detail": {}})
    for (snap, _), now in zip(bases, again or ()):
        now = np.asarray(now)
        if now.shape != snap.shape or now.dtype != snap.dtype or not np.array_equal(now, snap, equal_nan=snap.dtype.kind in "fc"):
            out["findings"].append({"who": label, "sym": "input-collection-modified",
                                    "msg": "an input collection gives other values after the routine was computed (a kernel wrote into its argument)",
                                    "detail": {"got": now, "expected": snap}})
            break
    if len(values) != len(expected):
        out["findings"].append({"who": label, "sym": "number-of-outputs",
                                "msg": "%d outputs vs %d expected" % (len(values), len(expected)), "detail": {}})
        return out
    names = plan.get("names") or tuple("out%d" % i for i in range(len(expected)))
    tol = plan.get("tol")
    seen = set()
    for nm, lz, rv, e in zip(names, lazy, values, expected):
        e = np.asarray(e)
        if tol and e.dtype.kind == "f":
            m = compare_arrays(rv, e, exact=False, n=tol[0], scale=tol[1], check_dtype=plan.get("check_dtype", True))
        else:
            m = compare_arrays(rv, e, exact=True, check_dtype=plan.get("check_dtype", True))
        who = label + ("" if len(names) == 1 or not plan.get("name_outputs", True) else "/" + nm)
        if m is None and hasattr(lz, "dask"):
            out["lazy_checked"] += 1
            m = lazy_meta_mismatch(lz, rv)
        if m and (who, m[0]) not in seen:
            seen.add((who, m[0]))
            out["findings"].append({"who": who, "sym": m[0], "msg": m[1],
                                    "detail": {"got": np.asarray(rv), "expected": e, "lazy": repr(lz)[:160]}})
    out["shapes"] = [list(np.shape(v)) for v in values][:4]
    out["lazy"], out["values"] = lazy, values        # for the sibling facet in _run
    return out


DOMAIN = ("zero-length", "short-axis-split", "empty-chunk", "nan")


def _minimal_features(case, finding):
    """Greedy ablation: remove one input feature at a time (extra empty chunks on short axes, empty chunks, NaN,
    zero-length axes); a feature whose removal keeps the same symptom is irrelevant for the label.  Returns the plan
    feature string of the reduced case."""
    cur = case
    for f in DOMAIN:
        present = globals()["_p_" + cur["op"]](cur)["feat"].split("&")
        if f not in present:
            continue
        try:
            red = ABLATE[f](cur)
            ev = _evaluate(red)
        except CaseTimeout:
            raise
        except Exception:  # noqa: BLE001  (an ablation that cannot be built keeps the feature)
            continue
        if ev["status"] == "ok" and any(g["who"] == finding["who"] and g["sym"] == finding["sym"] for g in ev["findings"]):
            cur = red
    return globals()["_p_" + cur["op"]](cur)["feat"], cur


def _run(case, ctx):
    op = case["op"]
    ctx.op(op)
    ctx.sig = _strip(case)
    ev = _evaluate(case)
    plan = ev["plan"]
    if case.get("fam"):
        ctx.count("aud:" + case["fam"])
        if case.get("big"):
            big = [n for k in ("a", "v", "t") if isinstance(case.get(k), dict) for cs in case[k]["chunks"] for n in cs]
            big += list(case.get("rows", ())) + [n for cs in (case["chunks"] if op == "unravel_index" else ()) for n in cs]
            if any(n > 255 for n in big):
                ctx.count("aud:chunk>255")
    if plan is not None:
        ctx.count("ran:" + plan["label"])
        ctx.nontrivial = plan["nontrivial"]
        for f in plan["feat"].split("&") + list(plan.get("params", ())):
            if f:
                ctx.count("input:" + f)
    if ev["status"] == "reject":
        ctx.reject(ev["reason"])
        return
    if ev["status"] == "unsupported":
        ctx.unsupported(ev["reason"])
        return
    if ev.get("compared"):
        ctx.count("compared")
        ctx.count("inputs_unchanged_checked", ev.get("inputs_checked", 0))
    ctx.count("lazy_meta_checked", ev["lazy_checked"])
    for fd in ev["findings"]:
        if fd.get("shim"):
            ctx.envlimited(fd["msg"])
            continue
        feat, reduced = _minimal_features(case, fd)
        who, sym = fd["who"], fd["sym"]
        fl = feat.split("&")
        if who == "ravel":
            # the exception site names the mechanism (reshape of an n-d input); an empty chunk on a short axis is an
            # empty chunk like any other here
            if sym.endswith("@array/reshape.py:reshape_rechunk"):
                sym = "Error@array/reshape.py:reshape_rechunk"      # TypeError or IndexError while planning the reshape
            if "zero-length" in fl:
                feat = "zero-length&nd>1"
            else:
                dom = sorted({"empty-chunk" if f == "short-axis-split" else f for f in fl if f in DOMAIN})
                feat = "&".join(dom + ["nd>1"])
        elif "short-axis-split" in fl:
            # one mechanism (an axis of length <= 1 carrying extra empty chunks is treated as broadcastable), many
            # symptoms: collapse them
            who, feat, sym = plan["label"], "short-axis-split", "mismatch-or-error"
        elif "zero-length" in fl and "empty-chunk" in fl:
            feat = "&".join(f for f in fl if f != "empty-chunk")     # a zero-size input dominates extra empty chunks
        feat = "&".join(f for f in feat.split("&") if f != "plain") or "any-input"
        ctx.violation("%s:%s:%s" % (who, feat, sym), fd["msg"], reduced_case=reduced, **fd["detail"])
    ctx.sample = {"op": plan["label"], "features": plan["feat"], "out_shapes": ev["shapes"]}
    # ---- sibling facet: the same routine call with ONE other parameter must not share keys with this one ----------
    if ev.get("lazy") is not None:
        sib = _sibling(case)
        if sib is not None:
            param, c2 = sib

            def build():
                lz = globals()["_p_" + op](c2)["run"]()
                return tuple(lz) if isinstance(lz, (tuple, list)) else lz

            S.check(ctx, plan["label"], param, ev["lazy"], build, va=ev["values"],
                    describe={k: v for k, v in c2.items() if case.get(k) != v})


def _other(srng, cur, pool):
    cand = [v for v in pool if v != cur]
    return srng.choice(cand) if cand else None


def _sib_bins(srng, b):
    b = dict(b)
    if b["kind"].startswith("int"):
        if srng.random() < 0.5:
            b["n"] = b["n"] + 1
        else:
            b["range"] = [b["range"][0], b["range"][1] + 0.5]
    else:
        e = list(b["edges"])
        b["edges"] = e + [e[-1] + 1] if (len(e) <= 2 or srng.random() < 0.5) else e[:-1]
    return b


def _sibling(case):
    """(parameter, case with that ONE routine parameter changed) or None.  Parameters that change the NUMBER of outputs
    (np.unique's return_* flags) are left alone; nonzero/argwhere/flatnonzero/unique have no other parameter."""
    op = case["op"]
    srng = S.rng_for(case)
    c2 = dict(case)
    if op == "bincount":
        if case["split_every"] and srng.random() < 0.3:
            c2["split_every"] = _other(srng, case["split_every"], (2, 3, 5))
            return "split_every", c2
        c2["minlength"] = _other(srng, case["minlength"], (0, 1, 3, 5, 9, 12))
        return "minlength", c2
    if op == "histogram":
        if srng.random() < 0.3:
            c2["density"] = not case["density"]
            return "density", c2
        c2["bins"] = _sib_bins(srng, case["bins"])
        return "bins", c2
    if op == "histogram2d":
        if srng.random() < 0.3:
            c2["density"] = not case["density"]
            return "density", c2
        if case["form"] == "int":
            b = _sib_bins(srng, case["bx"])
            if b["n"] != case["bx"]["n"]:
                c2["bx"], c2["by"] = b, dict(case["by"], n=b["n"])
            else:
                c2["bx"] = b
        else:
            k = srng.choice(("bx", "by"))
            c2[k] = _sib_bins(srng, case[k])
        return "bins", c2
    if op == "histogramdd":
        if srng.random() < 0.3:
            c2["density"] = not case["density"]
            return "density", c2
        bins = [dict(b) for b in case["bins"]]
        if case["form"] == "int":
            if srng.random() < 0.5:
                for b in bins:
                    b["n"] += 1
            else:
                bins[0]["range"] = [bins[0]["range"][0], bins[0]["range"][1] + 0.5]
        else:
            i = srng.randrange(len(bins))
            bins[i] = _sib_bins(srng, bins[i])
        c2["bins"] = bins
        return "bins", c2
    if op == "digitize":
        if srng.random() < 0.5:
            c2["right"] = not case["right"]
            return "right", c2
        e = list(case["edges"])
        inc = len(e) < 2 or e[0] <= e[-1]
        c2["edges"] = e + [e[-1] + (1 if inc else -1)] if e else [0]
        return "bins", c2
    if op == "searchsorted":
        c2["side"] = "right" if case["side"] == "left" else "left"
        return "side", c2
    if op == "isin":
        c2["invert"] = not case["invert"]
        return "invert", c2
    if op == "count_nonzero":
        nd = len(case["a"]["shape"])
        cur = case["axis"]
        cand = [None] + list(range(nd))
        cand = [a for a in cand if a != cur and not (isinstance(cur, int) and isinstance(a, int) and (a - cur) % nd == 0)
                and not (nd == 1 and (a is None or cur is None or isinstance(cur, list)))]
        if isinstance(cur, list):
            cand = [a for a in cand if a is not None or len(cur) != nd]
        if not cand:
            return None
        c2["axis"] = srng.choice(cand)
        return "axis", c2
    if op == "ravel_multi_index":
        u = srng.random()
        if u < 0.35 and len(case["dims"]) >= 2:
            c2["order"] = "F" if case["order"] == "C" else "C"
            return "order", c2
        if u < 0.6:
            c2["mode"] = _other(srng, case["mode"], ("wrap", "clip"))
            return "mode", c2
        dims = list(case["dims"])
        dims[-1 if case["order"] == "C" and len(dims) > 1 else 0] += 1
        c2["dims"] = dims
        return "dims", c2
    if op == "unravel_index":
        if srng.random() < 0.4 and len(case["dims"]) >= 2:
            c2["order"] = "F" if case["order"] == "C" else "C"
            return "order", c2
        dims = list(case["dims"])
        dims[-1 if case["order"] == "C" else 0] += 1
        c2["dims"] = dims
        return "shape", c2
    if op == "coarsen":
        if case["red"] in COARSEN_SIB and srng.random() < 0.6:
            c2["red"] = COARSEN_SIB[case["red"]]         # same reduction function, other keyword arguments
            return "kwargs", c2
        if srng.random() < 0.5 or not case["axes"]:
            c2["red"] = _other(srng, case["red"], ("max", "min") if case["red"] == "sumf64" else ("sum", "max", "min"))
            return "reduction", c2
        axes = dict(case["axes"])
        k = srng.choice(sorted(axes))
        n = case["a"]["shape"][int(k)]
        if case["trim_excess"]:
            cand = [f for f in range(1, max(1, n) + 1) if f != axes[k]]
        else:
            cand = [f for f in range(1, n + 1) if n % f == 0 and f != axes[k]]
        if not cand:
            c2["red"] = _other(srng, case["red"], ("sum", "max", "min"))
            return "reduction", c2
        axes[k] = srng.choice(cand)
        c2["axes"] = axes
        return "axes", c2
    if op == "compress":
        nd = len(case["a"]["shape"])
        cur = case["axis"]
        n = int(np.prod(case["a"]["shape"])) if cur is None else case["a"]["shape"][cur]
        cand = [a for a in [None] + list(range(nd)) if a != cur and not (isinstance(cur, int) and a is not None and (a - cur) % nd == 0)
                and (int(np.prod(case["a"]["shape"])) if a is None else case["a"]["shape"][a]) >= case["clen"]
                and not (nd == 1)]
        if not cand:
            return None
        c2["axis"] = srng.choice(cand)
        return "axis", c2
    return None


# ---- ablations -------------------------------------------------------------------------------------------------
def _map_chunk_lists(o, fn, key=None):
    """Apply fn to every per-axis chunk list (list of ints stored under a *chunks* / rows key)."""
    if isinstance(o, dict):
        return {k: _map_chunk_lists(v, fn, k) for k, v in o.items()}
    if isinstance(o, list) and key is not None and ("chunks" in key or key == "rows"):
        if o and all(isinstance(i, int) for i in o):
            return fn(o)
        return [_map_chunk_lists(v, fn, key) for v in o]
    return o


def _ab_short(case):
    return _map_chunk_lists(case, lambda c: [sum(c)] if sum(c) <= 1 and len(c) > 1 else c)


def _ab_empty(case):
    lo = 0 if case["op"] == "coarsen" else 1      # coarsen: see _p_coarsen
    return _map_chunk_lists(case, lambda c: [i for i in c if i] if sum(c) > lo else c)


def _ab_nan(o):
    if isinstance(o, dict):
        return {k: (v.replace("floatnan", "float") if k == "vals" and isinstance(v, str) else _ab_nan(v)) for k, v in o.items()}
    if isinstance(o, list):
        return [_ab_nan(v) for v in o]
    return o


def _fix_zero_desc(d):
    shape = [2 if n == 0 else n for n in d["shape"]]
    chunks = [[2] if n == 0 else c for n, c in zip(d["shape"], d["chunks"])]
    return dict(d, shape=shape, chunks=chunks)


def _ab_zero(case):
    c = dict(case)
    for k in ("a", "b", "v", "t"):
        if isinstance(c.get(k), dict) and "shape" in c[k]:
            c[k] = _fix_zero_desc(c[k])
    op = c["op"]
    if op == "histogramdd" and c["n"] == 0:
        c["n"], c["rows"] = 2, [2]
    if op == "histogram2d":
        c["b"] = dict(c["b"], shape=c["a"]["shape"], chunks=c["a"]["chunks"])
    if op in ("ravel_multi_index", "unravel_index"):
        ish = c["ishape"]
        c["ishape"] = [2 if n == 0 else n for n in ish]
        if op == "unravel_index":
            c["chunks"] = [[2] if n == 0 else ch for n, ch in zip(ish, c["chunks"])]
        else:
            c["chunks"] = [[[2] if n == 0 else ch for n, ch in zip(ish, chs)] for chs in c["chunks"]]
            c["schunks"] = [c["schunks"][0]] + [[2] if n == 0 else ch for n, ch in zip(ish, c["schunks"][1:])]
    if op == "compress":
        shp = c["a"]["shape"]
        n = int(np.prod(shp)) if c["axis"] is None else shp[c["axis"]]
        if c["clen"] == 0 and n != 0 and case["clen"] == (int(np.prod(case["a"]["shape"])) if c["axis"] is None else case["a"]["shape"][c["axis"]]):
            c["clen"], c["cchunks"] = n, [n]
    return c


ABLATE = {"short-axis-split": _ab_short, "empty-chunk": _ab_empty, "nan": _ab_nan, "zero-length": _ab_zero}


def _strip(o):
    if isinstance(o, dict):
        return {k: _strip(v) for k, v in o.items() if k not in ("seed", "space", "wseed", "cseed")}
    return o


def _split(*chunkss):
    return any(len([c for c in cs if c]) >= 2 for chunks in chunkss for cs in chunks)


# ---- per-operation plans -----------------------------------------------------------------------------------
def _p_unique(case):
    import dask.array as da

    x, d = _da(case["a"])
    fl = case["flags"]
    kw = {"return_index": bool(fl & 1), "return_inverse": bool(fl & 2), "return_counts": bool(fl & 4)}
    names = ("values",) + tuple(n for n, b in (("index", fl & 1), ("inverse", fl & 2), ("counts", fl & 4)) if b)
    feat = _input_features((x, d.chunks))
    return {"label": "unique", "feat": feat, "params": ["nd>1"] if x.ndim > 1 else [], "nontrivial": _split(d.chunks), "names": names,
            "ref": lambda: np.unique(x, **kw), "run": lambda: da.unique(d, **kw)}


def _p_bincount(case):
    import dask.array as da

    x, d = _da(case["a"])
    w = dw = None
    if case["weights"]:
        w = _weights(case["weights"], case["wseed"], x.shape)
        dw = _fa(w, chunks=d.chunks)
    kw = {"minlength": case["minlength"]}
    feat = _input_features((x, d.chunks))
    feat += "&minlength>0" if case["minlength"] else ""
    feat += "&max(x)>=minlength" if case["minlength"] and x.size and int(x.max()) >= case["minlength"] else ""
    params = (["split_every"] if case["split_every"] else []) + (["weights=" + case["weights"]] if w is not None else [])
    if case["split_every"] and len(d.chunks[0]) > case["split_every"]:
        params.append("combine-level")          # more blocks than split_every: an intermediate combine step exists
    tol = (max(1, x.size), float(np.abs(w).sum()) or 1.0) if case["weights"] == "frac" else None
    # Calibration: np.bincount(empty, weights=empty) returns int64 (NumPy ignores the weights on its empty-input
    # shortcut) although every non-empty weighted call returns float64; dask returns float64 throughout.
    return {"label": "bincount", "feat": feat, "params": params, "check_dtype": not (x.size == 0 and w is not None), "nontrivial": _split(d.chunks), "tol": tol,
            "ref": lambda: np.bincount(x, weights=w, **kw),
            "run": lambda: da.bincount(d, weights=dw, split_every=case["split_every"], **kw)}


def _bins_args(b, dask_ok=True):
    import dask.array as da

    if b["kind"] == "int":
        return b["n"], tuple(b["range"]), b["n"], tuple(b["range"])
    if b["kind"] == "int-dask0d":         # a lazy number of bins (0-d dask array); needs range
        return _fa(np.int64(b["n"]), chunks=()), tuple(b["range"]), b["n"], tuple(b["range"])
    e = np.array(b["edges"])
    if b["kind"] == "edges-list":
        return list(b["edges"]), None, list(b["edges"]), None
    if b["kind"] == "edges-dask" and dask_ok:
        return _fa(e, chunks=max(1, len(e) // 2)), None, e, None
    return e, None, e, None


def _range_arg(kind, rg):
    """The accepted spellings of histogram's range=: tuple, list, ndarray, dask array of shape (2,), list of lazy scalars."""
    import dask.array as da
    from dask import delayed

    if rg is None or kind in (None, "tuple"):
        return rg
    lo, hi = float(rg[0]), float(rg[1])
    if kind == "list":
        return [rg[0], rg[1]]
    if kind == "ndarray":
        return np.array([lo, hi])
    if kind == "dask":
        return _fa(np.array([lo, hi]), chunks=1)
    src = _fa(np.array([lo, hi, lo - 1.0]), chunks=2)
    if kind == "lazy":
        return [src.min() + 1.0, src.max()]
    if kind == "mixed":
        return [rg[0], src.max()]
    if kind == "delayed-scalars":
        return [delayed(lo), delayed(hi)]
    raise AssertionError(kind)


def _p_histogram(case):
    import dask.array as da

    x, d = _da(case["a"])
    w = dw = None
    if case["weights"]:
        w = _weights(case["weights"], case["wseed"], x.shape)
        dw = _fa(w, chunks=d.chunks)
    dbins, drange, nbins, nrange = _bins_args(case["bins"])
    if case.get("extra_range"):           # range= next to explicit edges: NumPy ignores it
        drange = nrange = tuple(case["extra_range"])
    kw = {}
    if case["density"] is not None:
        kw["density"] = case["density"]
    feat = _input_features((x, d.chunks))
    params = ["bins=" + case["bins"]["kind"]]
    if case.get("range_kind"):
        params.append("range=" + case["range_kind"])
    if case.get("extra_range"):
        params.append("range+edges")
    feat += "&weights=" + ("int" if case["weights"].startswith("int") else "float") if w is not None else ""
    feat += "&density" if case["density"] else ""
    tol = None
    if case["weights"] == "frac" or case["density"]:
        tol = (max(1, x.size), float(np.abs(w).sum()) if w is not None else float(max(1, x.size)))
        if case["density"]:
            tol = (tol[0], 1e3)     # densities are O(1/width); widths >= 0.1
    return {"label": "histogram", "feat": feat, "params": params, "nontrivial": _split(d.chunks), "names": ("hist", "edges"), "tol": tol,
            "ref": lambda: np.histogram(x, bins=nbins, range=nrange, weights=w, **kw),
            "run": lambda: da.histogram(d, bins=dbins, range=_range_arg(case.get("range_kind"), drange), weights=dw, **kw)}


def _dd_bins(form, bins, edges_kind=None, range_kind=None):
    rg = tuple(tuple(b["range"]) for b in bins) if form != "edges" else None
    if rg is not None and range_kind == "list":
        rg = [list(r) for r in rg]
    elif rg is not None and range_kind == "ndarray":
        rg = np.array(rg, dtype=float)
    if form == "int":
        return bins[0]["n"], rg
    if form == "ints":
        ns = [b["n"] for b in bins]
        return (tuple(ns) if edges_kind == "tuple" else ns), rg
    if edges_kind == "list":
        return [list(b["edges"]) for b in bins], None
    if edges_kind == "tuple":
        return tuple(tuple(b["edges"]) for b in bins), None
    if edges_kind == "ndarray-in-tuple":
        return tuple(np.array(b["edges"]) for b in bins), None
    return [np.array(b["edges"]) for b in bins], None


def _dd_params(case):
    return [k + "=" + case[k] for k in ("edges_kind", "range_kind", "sample_kind") if case.get(k)]


def _p_histogram2d(case):
    import dask.array as da

    x, dx = _da(case["a"])
    y = _data(case["b"])
    dy = _fa(y, chunks=dx.chunks)
    w = dw = None
    if case["weights"]:
        w = _weights(case["weights"], case["wseed"], x.shape)
        dw = _fa(w, chunks=dx.chunks)
    bins, rng_ = _dd_bins(case["form"], [case["bx"], case["by"]], case.get("edges_kind"), case.get("range_kind"))
    kw = {}
    if case["density"] is not None:
        kw["density"] = case["density"]
    feat = _input_features((x, dx.chunks), (y, None))
    params = ["bins=" + case["form"], "via-histogram2d"] + _dd_params(case)
    feat += "&weights=" + ("int" if case["weights"].startswith("int") else "float") if w is not None else ""
    feat += "&density" if case["density"] else ""
    tol = (max(1, x.size), 1e3) if case["density"] else (max(1, x.size), float(np.abs(w).sum()) or 1.0) if case["weights"] == "frac" else None
    return {"label": "histogramdd", "feat": feat, "params": params, "nontrivial": _split(dx.chunks), "names": ("hist", "xedges", "yedges"),
            "tol": tol,
            "ref": lambda: np.histogram2d(x, y, bins=bins, range=rng_, weights=w, **kw),
            "run": lambda: da.histogram2d(dx, dy, bins=bins, range=rng_, weights=dw, **kw)}


def _p_histogramdd(case):
    import dask.array as da

    n, D = case["n"], case["D"]
    s = _data({"shape": [n, D], "vals": case["vals"], "seed": case["seed"]})
    rows = tuple(case["rows"])
    w = dw = None
    if case["weights"]:
        w = _weights(case["weights"], case["wseed"], (n,))
        dw = _fa(w, chunks=(rows,))
    if case["rect"]:
        ds = _fa(s, chunks=(rows, (D,)))
    else:
        ds = tuple(_fa(np.ascontiguousarray(s[:, j]), chunks=(rows,)) for j in range(D))
        if case.get("sample_kind") == "list":
            ds = list(ds)
    bins, rng_ = _dd_bins(case["form"], case["bins"], case.get("edges_kind"), case.get("range_kind"))
    kw = {}
    if case["density"] is not None:
        kw["density"] = case["density"]
    feat = _input_features((s, (rows,)))
    params = ["bins=" + case["form"], "rect" if case["rect"] else "seq"] + _dd_params(case)
    feat += "&weights=" + ("int" if case["weights"].startswith("int") else "float") if w is not None else ""
    feat += "&density" if case["density"] else ""
    tol = (max(1, n), 1e4) if case["density"] else (max(1, n), float(np.abs(w).sum()) or 1.0) if case["weights"] == "frac" else None

    def ref():
        seq = tuple(s[:, j] for j in range(D))
        h, e = np.histogramdd(s if case["rect"] else list(seq) if case.get("sample_kind") == "list" else seq,
                              bins=bins, range=rng_, weights=w, **kw)
        return (h,) + tuple(e)

    def run():
        h, e = da.histogramdd(ds, bins=bins, range=rng_, weights=dw, **kw)
        return (h,) + tuple(e)

    return {"label": "histogramdd", "feat": feat, "params": params, "nontrivial": _split((rows,)),
            "names": ("hist",) + tuple("edges%d" % j for j in range(D)), "tol": tol, "ref": ref, "run": run}


def _p_digitize(case):
    import dask.array as da

    x, d = _da(case["a"])
    bk = case.get("bins_kind")
    e = np.array(case["edges"], dtype="float32" if bk == "float32" else "int64" if bk == "int-ndarray" else float)
    if bk == "list":
        e = list(case["edges"])
    feat = _input_features((x, d.chunks))
    params = (["decreasing"] if len(e) > 1 and e[0] > e[-1] else []) + (["right"] if case["right"] else [])
    params += ["bins=" + bk] if bk else []
    return {"label": "digitize", "feat": feat, "params": params, "nontrivial": _split(d.chunks),
            "ref": lambda: np.digitize(x, e, right=case["right"]), "run": lambda: da.digitize(d, e, right=case["right"])}


def _p_searchsorted(case):
    import dask.array as da

    x, d = _da(case["a"])
    v, dv = _da(case["v"])
    feat = _input_features((x, d.chunks), (v, dv.chunks))
    if v.ndim > 1:
        feat += "&v-nd>1"
    if v.ndim == 0:
        feat += "&v-0d"
    kw = {}
    params = ["side=" + case["side"]]
    if case.get("sorter"):
        # a is handed over UNSORTED together with sorter=argsort(a).  dask documents sorter= as unsupported: the only two
        # acceptable outcomes are NotImplementedError (counted unsupported) or NumPy's result - not a silently ignored sorter.
        r = np.random.default_rng(case["a"]["seed"])
        x = x[r.permutation(len(x))]
        d = _fa(x, chunks=d.chunks)
        kw["sorter"] = np.argsort(x, kind="stable")
        params.append("sorter")
    return {"label": "searchsorted", "feat": feat, "params": params, "nontrivial": _split(d.chunks),
            "ref": lambda: np.searchsorted(x, v, side=case["side"], **kw), "run": lambda: da.searchsorted(d, dv, side=case["side"], **kw)}


def _p_isin(case):
    import dask.array as da

    x, d = _da(case["a"])
    t, dt = _da(case["t"])
    au = case["assume_unique"]
    if au and (len(np.unique(x)) != x.size or len(np.unique(t)) != t.size or np.isnan(x.astype(float)).sum() > 1
               or np.isnan(t.astype(float)).sum() > 1):
        au = False       # assume_unique=True on non-unique input is a usage error in NumPy as well
    targ = dt if case["tkind"] == "dask" else t if case["tkind"] == "numpy" else t.tolist()
    ek = case.get("ekind", "dask")
    earg = d if ek == "dask" else x if ek == "numpy" else x.tolist()
    xr = earg if ek == "list" else x          # a nested list does not keep the shape of a zero-size array
    feat = _input_features((x, d.chunks if ek == "dask" else None), (t, dt.chunks if case["tkind"] == "dask" else None))
    params = (["assume_unique"] if au else []) + (["invert"] if case["invert"] else []) + ["test=" + case["tkind"]]
    params += ["element=" + ek] if ek != "dask" else []
    return {"label": "isin", "feat": feat, "params": params,
            "nontrivial": (ek == "dask" and _split(d.chunks)) or (case["tkind"] == "dask" and _split(dt.chunks)),
            "ref": lambda: np.isin(xr, t, assume_unique=au, invert=case["invert"]),
            "run": lambda: da.isin(earg, targ, assume_unique=au, invert=case["invert"])}


def _akind(case, x, d):
    """The array argument as the case wants it handed over: dask array (default), the NumPy array or a nested list
    (argwhere / flatnonzero / count_nonzero / compress convert it themselves).  Returns (argument, chunks or None, params, argument of the reference)."""
    ak = case.get("akind", "dask")
    if ak == "dask":
        return d, d.chunks, [], x
    arg = x if ak == "numpy" else x.tolist()
    return arg, None, ["a=" + ak], arg            # the reference gets the same object (a nested list has its own dtype rules)


def _p_nonzero(case):
    import dask.array as da

    x, d = _da(case["a"])
    arg, ch, extra, xr = _akind(case, x, d)
    feat = _input_features((x, ch)) + ("&nd>1" if x.ndim > 1 else "")
    return {"label": "argwhere", "feat": feat, "params": ["via-nonzero"] + extra, "nontrivial": bool(ch) and _split(ch), "names": tuple("axis%d" % i for i in range(x.ndim)),
            "ref": lambda: np.nonzero(xr), "run": lambda: da.nonzero(arg)}


def _p_argwhere(case):
    import dask.array as da

    x, d = _da(case["a"])
    arg, ch, extra, xr = _akind(case, x, d)
    feat = _input_features((x, ch)) + ("&nd>1" if x.ndim > 1 else "")
    return {"label": "argwhere", "feat": feat, "params": extra, "nontrivial": bool(ch) and _split(ch),
            "ref": lambda: np.argwhere(xr), "run": lambda: da.argwhere(arg)}


def _p_flatnonzero(case):
    import dask.array as da

    x, d = _da(case["a"])
    arg, ch, extra, xr = _akind(case, x, d)
    feat = _input_features((x, ch)) + ("&nd>1" if x.ndim > 1 else "")
    return {"label": "argwhere", "feat": feat, "params": ["via-flatnonzero"] + extra, "nontrivial": bool(ch) and _split(ch),
            "ref": lambda: np.flatnonzero(xr), "run": lambda: da.flatnonzero(arg)}


def _p_count_nonzero(case):
    import dask.array as da

    x, d = _da(case["a"])
    axis = case["axis"]
    axis = tuple(axis) if isinstance(axis, list) else axis
    if isinstance(axis, tuple) and len(set(a % x.ndim for a in axis)) != len(axis):
        raise _Reject("duplicate axis")
    arg, ch, extra, xr = _akind(case, x, d)
    feat = _input_features((x, ch))
    params = ["axis=" + ("None" if axis is None else "int" if isinstance(axis, int) else "tuple")] + extra
    return {"label": "count_nonzero", "feat": feat, "params": params, "nontrivial": bool(ch) and _split(ch),
            "ref": lambda: np.count_nonzero(xr, axis=axis), "run": lambda: da.count_nonzero(arg, axis=axis)}


def _dims_arg(kind, dims):
    return list(dims) if kind == "list" else np.array(dims) if kind == "ndarray" else tuple(dims)


def _p_ravel_multi_index(case):
    import dask.array as da

    dims = tuple(case["dims"])
    ish = tuple(case["ishape"])
    r = np.random.default_rng(case["seed"])
    mode = tuple(case["mode"]) if isinstance(case["mode"], list) else case["mode"]
    modes = mode if isinstance(mode, tuple) else (mode,) * len(dims)
    idt = case.get("idtype", "int64")
    idx = []
    for dm, md in zip(dims, modes):
        lo, hi = (0, 0) if md == "raise" else (-3, 3)
        idx.append(r.integers(lo, dm + hi, int(np.prod(ish))).astype(idt).reshape(ish))
    members = case.get("members")
    if case["stacked"]:
        st = np.stack(idx)
        darg = _fa(st, chunks=tuple(tuple(c) for c in case["schunks"]))
        narg = st
        chunks = darg.chunks
    elif members:
        # tuple members that are not all dask arrays of one shape: NumPy broadcasts them
        dl, nl, chunks = [], [], ()
        for i, mk, ch, om in zip(idx, members, case["chunks"], case["ones_mask"]):
            if mk == "scalar":
                v = int(i.reshape(-1)[0]) if i.size else 0
                dl.append(v), nl.append(v)
            elif mk == "numpy":
                dl.append(i), nl.append(i)
            elif mk == "ones":        # length-1 axes (held in one chunk) that broadcast against the other members
                j = i[tuple(slice(0, 1) if o else slice(None) for o in om)]
                dd = _fa(j, chunks=tuple((1,) if (o and n) else tuple(c) for o, n, c in zip(om, ish, ch)))
                dl.append(dd), nl.append(j)
                chunks += dd.chunks
            else:
                dd = _fa(i, chunks=tuple(tuple(c) for c in ch))
                dl.append(dd), nl.append(i)
                chunks += dd.chunks
        darg, narg = tuple(dl), tuple(nl)
    else:
        ds = [_fa(i, chunks=tuple(tuple(c) for c in ch)) for i, ch in zip(idx, case["chunks"])]
        darg, narg = tuple(ds), tuple(idx)
        chunks = tuple(c for dd in ds for c in dd.chunks)
    ddims = dims[0] if case["scalar_dims"] else _dims_arg(case.get("dims_kind"), dims)
    feat = _input_features((idx[0], chunks)) + ("&stacked" if case["stacked"] else "&tuple")
    params = ["mode=" + (mode if isinstance(mode, str) else "per-dim"), "order=" + case["order"]]
    params += (["dims=" + case["dims_kind"]] if case.get("dims_kind") else []) + (["index=" + idt] if idt != "int64" else [])
    params += ["members-broadcast"] if members else []
    return {"label": "ravel_multi_index", "feat": feat, "params": params, "nontrivial": _split(chunks),
            "ref": lambda: np.ravel_multi_index(narg, ddims, mode=mode, order=case["order"]),
            "run": lambda: da.ravel_multi_index(darg, ddims, mode=mode, order=case["order"])}


def _p_unravel_index(case):
    import dask.array as da

    dims = tuple(case["dims"])
    ish = tuple(case["ishape"])
    r = np.random.default_rng(case["seed"])
    idt = case.get("idtype", "int64")
    idx = r.integers(0, min(int(np.prod(dims)), 256 if idt == "uint8" else 2 ** 31), int(np.prod(ish))).astype(idt).reshape(ish)
    d = _fa(idx, chunks=tuple(tuple(c) for c in case["chunks"]))
    feat = _input_features((idx, d.chunks)) + ("&nd>1" if idx.ndim > 1 else "")
    params = ["order=" + case["order"]] + (["index=" + idt] if idt != "int64" else [])
    params += ["shape=" + case["dims_kind"]] if case.get("dims_kind") else []
    ddims = _dims_arg(case.get("dims_kind"), dims)
    return {"label": "unravel_index", "feat": feat, "params": params, "name_outputs": False, "nontrivial": _split(d.chunks), "names": tuple("dim%d" % i for i in range(len(dims))),
            "ref": lambda: np.unravel_index(idx, ddims, order=case["order"]),
            "run": lambda: da.unravel_index(d, ddims, order=case["order"])}


def _coarsen_ref(red, x, axes, trim):
    sl, newshape, raxes = [], [], []
    for ax, n in enumerate(x.shape):
        k = axes.get(ax, 1)
        if n % k and not trim:
            raise ValueError("does not align")
        m = n // k
        sl.append(slice(0, m * k))
        newshape += [m, k]
        raxes.append(2 * ax + 1)
    return red(x[tuple(sl)].reshape(newshape), axis=tuple(raxes))


COARSEN_KW = {"var1": ("var", {"ddof": 1}), "std0": ("std", {"ddof": 0}), "sumf64": ("sum", {"dtype": "float64"}),
              "prod": ("prod", {}), "var0": ("var", {"ddof": 0}), "std1": ("std", {"ddof": 1}), "sumc": ("sum", {"dtype": "complex128"})}
COARSEN_SIB = {"var1": "var0", "std0": "std1", "sumf64": "sumc"}


def _p_coarsen(case):
    import functools

    import dask.array as da

    x, d = _da(case["a"])
    axes = {int(k): v for k, v in case["axes"].items()}
    red = case["red"]
    kwargs = {}
    if red in COARSEN_KW:
        nm, kwargs = COARSEN_KW[red]
        nred = dred = getattr(np, nm)
    else:
        nred = getattr(np, red[3:] if red.startswith("da.") else red)
        dred = getattr(da, red[3:]) if red.startswith("da.") else nred
    trim = case["trim_excess"]
    excess = any(x.shape[a] % k for a, k in axes.items())
    # coarsen is not blockwise: an empty chunk on a length-1 axis is the same situation as on any other axis
    feat = "&".join(sorted(set(_input_features((x, d.chunks)).replace("short-axis-split", "empty-chunk").split("&"))))
    if any(k > x.shape[a] for a, k in axes.items()):
        feat += "&factor>length"               # everything is trimmed: the reference result has a zero-length axis
    params = ["red=" + red] + (["excess"] if excess else []) + (["kwargs"] if kwargs else []) + (["long-axis"] if case.get("long") else [])
    params += ["misaligned-chunks"] if any(c % axes.get(a, 1) for a, cs in enumerate(d.chunks) for c in cs) else []
    floaty = red in ("mean", "da.mean", "var1", "std0", "var0", "std1")
    tol = (max(axes.values(), default=1) ** max(1, len(axes)), 16.0 if red[:3] in ("var", "std") else 4.0) if floaty else None
    return {"label": "coarsen", "feat": feat, "params": params, "nontrivial": _split(d.chunks), "tol": tol,
            "ref": lambda: _coarsen_ref(functools.partial(nred, **kwargs), x, axes, trim),
            "run": lambda: da.coarsen(dred, d, dict(axes), trim_excess=trim, **kwargs)}


def _p_compress(case):
    import dask.array as da

    x, d = _da(case["a"])
    r = np.random.default_rng(case["cseed"])
    ln = case["clen"]
    if case["ckind"] == "int-numpy":
        cond = r.integers(0, 3, ln).astype("int64")
    else:
        cond = r.integers(0, 2, ln).astype(bool)
    ck = case["ckind"]
    if ck == "list":
        dcond = cond.tolist()
    elif ck == "dask":
        dcond = _fa(cond, chunks=(tuple(case["cchunks"]),))
    else:
        dcond = cond
    axis = case["axis"]
    arg, ch, extra, xr = _akind(case, x, d)
    feat = _input_features((x, ch), (None, (tuple(case["cchunks"]),) if ck == "dask" else None))
    feat += "&cond=" + ("dask" if ck == "dask" else "concrete")
    n = x.size if axis is None else x.shape[axis]
    params = ["cond=" + ck] + (["short-condition"] if ln < n else []) + (["nd>1"] if x.ndim > 1 else [])
    params += (["axis=None"] if axis is None else []) + extra
    return {"label": "compress", "feat": feat, "params": params,
            "nontrivial": (bool(ch) and _split(ch)) or (ck == "dask" and _split((tuple(case["cchunks"]),))),
            "ref": lambda: np.compress(cond, xr, axis=axis), "run": lambda: da.compress(dcond, arg, axis=axis)}
