"""C52 — local diagnostics report every executed task faithfully.

Facet P (Profiler): inside one `with Profiler() as prof` context 1-3 computes of a
graph program run (sync, real thread pool, controlled executor with a seeded
completion order; some with a failing task).  A harness recorder callback that is
active in the same context logs every posttask; the profiler's results must be,
as a multiset of keys, exactly the tasks that completed, each with
start_time <= end_time.

Facet K (Cache): sequences of 2-4 computes of one program (different requested
keys, so later computes reuse cached results) run under dask.cache.Cache backed
by the harness `cachey` stand-in (seeded random eviction); every returned value
must equal the harness evaluation — the same value a compute without the cache
gives (also executed).  Programs deliberately contain results that look like
graph syntax (a string equal to another key, a list of key-like strings, a
tuple headed by a callable), because Cache writes cached VALUES back into the
graph.
"""
from __future__ import annotations

import random

from ..gen import graphs as G
from ..mon import sched as S

PROP = "C52"
RULE = ("cases = (facet, program seed, size, graph form, per-compute requests and scheduler modes). Profiler facet: random "
        "programs of 3-16 nodes (optionally one failing task), 1-3 computes per Profiler context on sync / threads / "
        "controlled executor. Cache facet: 2-4 computes of one program with overlapping requested keys under Cache with a "
        "seeded-eviction cachey stand-in, incl. programs whose task results look like graph syntax. non-trivial = >= 2 "
        "tasks executed (profiler) / >= 1 compute that found reusable keys in the cache (cache); distinct = distinct "
        "(facet, program seed, requests).")
ASSUMPTIONS = ["cachey is a harness stand-in (nbytes, Cache.put/get/data with seeded eviction); ResourceProfiler (psutil), "
               "ProgressBar output and bokeh plots are not covered",
               "the harness recorder callback defines 'executed task' (posttask fired)"]
BUDGET = {"quick": 40, "thorough": 400}
FLOORS = {"quick": {"evaluations": 1500, "distinct_nontrivial": 800,
                    "counters": {"profiler_contexts": 500, "profiler_entries_checked": 3000, "cache_computes": 1500,
                                 "cache_computes_with_reuse": 400, "failing_computes": 80,
                                 "graph_syntax_like_values_cached": 100}},
          "thorough": {"evaluations": 20000, "distinct_nontrivial": 10000,
                       "counters": {"profiler_contexts": 6000, "cache_computes": 20000, "cache_computes_with_reuse": 5000}}}
EXHAUSTIVE_SPACE = None
CLAIM = ("For every observed Profiler context the recorded entries equalled (as a multiset of keys) the tasks whose posttask "
         "fired, with start<=end; for every observed sequence of computes under Cache each returned value equalled the "
         "harness evaluation and the cache-free compute. Held = no counterexample among these executions.")
LEVEL_NOTE = "cachey replaced by a stand-in; only Profiler and Cache are covered (ResourceProfiler/ProgressBar/bokeh are not)"
TECHNIQUE = "runtime monitoring: profiler entries vs recorded execution history; cache on/off differential over compute sequences"


def cases(tier, seed):
    rng = random.Random(seed * 65537 + 3)
    n = 1000 if tier == "quick" else 12000
    for _ in range(n):
        yield {"facet": "profiler", "pseed": rng.randrange(2 ** 31), "n": rng.randint(3, 16),
               "form": rng.choice(("legacy", "spec")), "style": rng.choice(G.KEY_STYLES),
               "fail": rng.random() < 0.2, "ncomp": rng.randint(1, 3)}
    for _ in range(n):
        yield {"facet": "cache", "pseed": rng.randrange(2 ** 31), "n": rng.randint(3, 14),
               "form": rng.choice(("legacy", "spec")), "style": rng.choice(("str", "str", "tuple", "int")),
               "ncomp": rng.randint(2, 4), "syntaxlike": rng.random() < 0.4}


def shard_setup(tier, seed):
    import vf.shim

    vf.shim.install_cachey()


def _program(case):
    rng = random.Random(case["pseed"])
    prog = G.random_program(rng, case["n"], style=case["style"], nfail=1 if case.get("fail") else 0,
                            fail_kinds=("ValueError", "KeyError", "Boom"))
    if case.get("syntaxlike"):
        # turn some literal nodes into values that look like graph syntax, consumed through `ident`
        keys = [n.key for n in prog.nodes]
        pool = [keys[0], [keys[0], keys[-1]], (len, "abc"), (keys[-1],), {"k": keys[0]}]
        for nd in prog.nodes:
            if nd.kind == "lit" and rng.random() < 0.8:
                nd.lit = rng.choice(pool)
        # and make sure at least one task RETURNS such a value (ident of a literal argument)
        for nd in prog.nodes:
            if nd.kind == "call" and not nd.fail and not prog.deps(nd) and rng.random() < 0.7:
                nd.fn, nd.args, nd.kwargs = "ident", [("lit", rng.choice(pool))], {}
    return prog


def run_case(case, ctx):
    prog = _program(case)
    dsk = prog.legacy() if case["form"] == "legacy" else prog.spec()
    keys = [n.key for n in prog.nodes]
    rng = random.Random(case["pseed"] + 17)
    ctx.sig = (case["facet"], case["pseed"], case["n"], case["form"], case["ncomp"])
    if case["facet"] == "profiler":
        _profiler(case, ctx, prog, dsk, keys, rng)
    else:
        _cache(case, ctx, prog, dsk, keys, rng)


def _compute(mode, dsk, req, rng):
    """One scheduler call using the GLOBAL callbacks."""
    import dask
    import dask.threaded
    from concurrent.futures import ThreadPoolExecutor

    if mode == "controlled":
        obs = S.run_controlled(dsk, req, num_workers=rng.choice((1, 2, 3)), chunksize=rng.choice((1, 2)), policy="random",
                               rng=random.Random(rng.randrange(2 ** 31)), callbacks="global", trace_cache=False)
        return obs.result, obs.exc, obs.events
    G.reset_log()
    res = exc = None
    pool = None
    try:
        if mode == "threads":
            pool = ThreadPoolExecutor(rng.randint(1, 4))
            res = dask.threaded.get(dsk, req, pool=pool)
        else:
            res = dask.get(dsk, req)
    except BaseException as e:  # noqa: BLE001
        if type(e).__name__ in ("CaseTimeout", "KeyboardInterrupt"):
            raise
        exc = e
    finally:
        if pool is not None:
            pool.shutdown(wait=True)
    return res, exc, G.events()


def _profiler(case, ctx, prog, dsk, keys, rng):
    from dask.callbacks import Callback
    from dask.diagnostics import Profiler

    posted = []
    nfail = 0
    feats = set()
    ctx.count("profiler_contexts")
    with Profiler() as prof, Callback(*S.recorder("rec")):
        for c in range(case["ncomp"]):
            req = G.random_request(rng, keys)
            mode = rng.choice(("sync", "threads", "controlled"))
            ctx.op("profiler:" + mode)
            feats.add(mode)
            res, exc, events = _compute(mode, dsk, req, rng)
            if exc is not None:
                nfail += 1
                ctx.count("failing_computes")
            posted.extend(repr(ev[3]) for ev in events if ev[1] == "cb_post" and ev[2] == "rec")
    got = sorted(repr(r.key) for r in prof.results)
    exp = sorted(posted)
    ctx.count("profiler_entries_checked", len(got))
    f = ("failing" if nfail else "ok") + (":repeated-computes" if case["ncomp"] > 1 else ":single-compute")
    if got != exp:
        missing = [k for k in set(exp) if exp.count(k) > got.count(k)]
        extra = [k for k in set(got) if got.count(k) > exp.count(k)]
        if missing:
            ctx.violation("profiler:%s:completed-task-missing-from-results" % f,
                          "completed tasks %s have too few profiler entries (profiler %d entries, %d tasks completed)"
                          % (sorted(missing)[:6], len(got), len(exp)), program=prog.describe()[:20])
        if extra:
            ctx.violation("profiler:%s:entry-for-task-that-did-not-complete" % f,
                          "profiler has extra entries for %s" % (sorted(extra)[:6],), program=prog.describe()[:20])
    for r in prof.results:
        if not (r.start_time <= r.end_time):
            ctx.violation("profiler:start-after-end", "entry %r start %r end %r" % (r.key, r.start_time, r.end_time))
            break
    ctx.nontrivial = len(exp) >= 2
    ctx.sample = {"facet": "profiler", "modes": sorted(feats), "entries": len(got), "completed": len(exp), "failing_computes": nfail}


def _cache(case, ctx, prog, dsk, keys, rng):
    import cachey
    from dask.cache import Cache

    cachey.seed(case["pseed"])
    val = prog.evaluate()
    byk = {n.key: val[n.idx] for n in prog.nodes}
    cache = Cache(1e9)
    reused_any = False
    for c in range(case["ncomp"]):
        req = G.random_request(rng, keys)
        exp = G.pack_expected(req, byk)
        mode = rng.choice(("sync", "controlled", "threads"))
        ctx.op("cache:" + mode)
        overlap = set(dsk) & set(cache.cache.data)
        ctx.count("cache_computes")
        if overlap:
            ctx.count("cache_computes_with_reuse")
            reused_any = True
            if case.get("syntaxlike") and any(_syntaxlike(cache.cache.data[k], set(keys)) for k in overlap):
                ctx.count("graph_syntax_like_values_cached")
        # without the cache (reference run of the real scheduler)
        res0, exc0, _ = _compute(mode, dsk, req, random.Random(c))
        with cache:
            res1, exc1, _ = _compute(mode, dsk, req, random.Random(c))
        feat = ("reuse" if overlap else "first-use") + (":graph-syntax-like-values" if case.get("syntaxlike") else "")
        if exc0 is not None:
            ctx.violation("cache:%s:cache-free-compute-raised" % feat, repr(exc0), program=prog.describe()[:20])
            return
        if exc1 is not None:
            ctx.exception(exc1, prefix="cache:%s" % feat, request=repr(req), program=prog.describe()[:20],
                          cached_keys=sorted(map(repr, overlap)))
            return
        if not S._same(res1, res0) or not S._same(res1, exp):
            ctx.violation("cache:%s:value-differs-from-cache-free-compute" % feat,
                          "with cache %r, without %r, expected %r" % (res1, res0, exp), request=repr(req),
                          program=prog.describe()[:20], cached_keys=sorted(map(repr, overlap)))
            return
    ctx.nontrivial = reused_any
    ctx.sample = {"facet": "cache", "computes": case["ncomp"], "cache_entries": len(cache.cache.data),
                  "evictions": cache.cache.evictions}


def _syntaxlike(v, keys):
    try:
        if v in keys:
            return True
    except TypeError:
        pass
    if isinstance(v, tuple) and v and callable(v[0]):
        return True
    if isinstance(v, (list, tuple)):
        return any(_syntaxlike(x, keys) for x in v)
    return False
