"""C16 — graph manipulation keeps values and changes only keys and ordering.

Monitor: clone / bind / wait_on / checkpoint from dask.graph_manipulation are applied
to generated collections (arrays, bags, delayed trees, dataframes).  Values are compared
with the original collection's value; key sets are read from __dask_keys__ / the
materialised graphs; ordering is read from a task-execution log (pretask / posttask
callbacks of the real scheduler, optimize_graph=False so that keys survive), under the
sync scheduler and a real thread pool.

Rules checked (exactly the statement):
  clone     same values; no output key shared with the originals, except collections in omit
            (which must be returned/used as they are).
  bind      same values; every task of the regenerated children starts (pretask) only after
            every output key of every parent has finished (posttask).
  wait_on   same values; every output task of the returned collections starts only after every
            output key of every input collection has finished.
  checkpoint computes to None; its final task finishes only after every output key (chunk) of the
            inputs has finished.
"""
from __future__ import annotations

import random
import warnings

import numpy as np

from ..gen import graphs as G
from ..mon import sched as S

PROP = "C16"
RULE = ("cases = (operation in {clone, bind, wait_on, checkpoint}, collection kinds and seeds, omit/parents choice, seed=, "
        "assume_layers, split_every in {2,3,8,False,None}, scheduler sync|threads). Collections: chunked arrays built from 1-3 "
        "blockwise/reduction steps, bags (map/filter), delayed trees, dataframes. non-trivial = some collection has >= 2 "
        "output keys (chunks/partitions) or the call has >= 2 collections; distinct = distinct case descriptions.")
ASSUMPTIONS = ["ordering is observed through the scheduler's own pretask/posttask callbacks with optimize_graph=False",
               "dask.dataframe runs on the harness pyarrow import stub"]
BUDGET = {"quick": 40, "thorough": 400}
FLOORS = {"quick": {"evaluations": 1200, "distinct_nontrivial": 600,
                    "counters": {"clone_calls": 250, "bind_calls": 250, "bind_with_omitted_base": 30, "wait_on_calls": 200, "checkpoint_calls": 200,
                                 "ordering_edges_checked": 1800, "values_compared": 700}},
          "thorough": {"evaluations": 15000, "distinct_nontrivial": 8000, "counters": {"ordering_edges_checked": 40000}}}
EXHAUSTIVE_SPACE = None
CLAIM = ("For every generated call of clone/bind/wait_on/checkpoint the returned collections computed to the original values, "
         "clone outputs shared no output key with non-omitted originals, and the recorded task execution log showed the "
         "promised ordering (children after parents, dependents after all inputs, checkpoint last). Held = no "
         "counterexample among the executions observed.")
LEVEL_NOTE = "ordering read from callback events of the real local schedulers; only local schedulers"
TECHNIQUE = "runtime monitoring: value differential + key-set disjointness + happens-after check over the recorded pretask/posttask history"


def cases(tier, seed):
    rng = random.Random(seed * 52361 + 9)
    n = 1500 if tier == "quick" else 18000
    for _ in range(n):
        op = rng.choice(("clone", "clone", "bind", "bind", "wait_on", "checkpoint"))
        yield {"op": op, "seed": rng.randrange(2 ** 31), "ncoll": rng.randint(1, 3),
               "kinds": [rng.choice(("array", "array", "bag", "delayed", "frame")) for _ in range(3)],
               "omit": rng.random() < 0.4, "cseed": rng.choice((None, 0, "s", 7)), "assume_layers": rng.random() < 0.7,
               "split_every": rng.choice((2, 3, 8, False, None)), "threads": rng.random() < 0.3}


def shard_setup(tier, seed):
    from vf.gen import frames

    frames.setup()


def _inc(x):
    return x + 1


def _add(a, b):
    return a + b


def _make(kind, r):
    """returns (collection, reference value)"""
    import dask
    import dask.array as da
    import dask.bag as db
    from vf.gen import frames

    s = r.randrange(2 ** 31)
    if kind == "array":
        shape = tuple(r.randint(1, 6) for _ in range(r.randint(1, 2)))
        x = np.random.default_rng(s).integers(0, 9, shape)
        c = da.from_array(x, chunks=tuple(r.randint(1, n) for n in shape))
        ref = x
        for _ in range(r.randint(0, 3)):
            o = r.choice(("inc", "T", "sum0", "self"))
            if o == "inc":
                c, ref = c + 1, ref + 1
            elif o == "T":
                c, ref = c.T, ref.T
            elif o == "sum0" and ref.ndim == 2:
                c, ref = c.sum(axis=0), ref.sum(axis=0)
            else:
                c, ref = c + c, ref + ref
        return c, ref
    if kind == "bag":
        seq = [r.randint(0, 9) for _ in range(r.randint(1, 9))]
        b = db.from_sequence(seq, npartitions=r.randint(1, 4))
        if r.random() < 0.6:
            return b.map(_inc), [v + 1 for v in seq]
        return b, list(seq)
    if kind == "delayed":
        a = dask.delayed(_inc)(r.randint(0, 9))
        b = dask.delayed(_inc)(a)
        v = a.compute(scheduler="sync")
        if r.random() < 0.5:
            return dask.delayed(_add)(a, b), v + v + 1
        return b, v + 1
    dd = frames.setup()
    pdf = frames.rand_frame(s, nrows=r.randint(2, 9), index=r.choice(("range", "sorted")), cols=("a", "c"))
    d = dd.from_pandas(pdf, npartitions=r.randint(1, 3))
    if r.random() < 0.5:
        return d.assign(z=d.a + 1), pdf.assign(z=pdf.a + 1)
    return d, pdf


def _keys(c):
    from dask.core import flatten

    return set(flatten(c.__dask_keys__()))


def _data_keys(colls):
    """Output keys that are plain data in the graph (no task runs for them: available from the start)."""
    from dask._task_spec import DataNode, convert_legacy_graph

    out = set()
    for c in colls:
        try:
            conv = convert_legacy_graph(dict(c.__dask_graph__()))
        except Exception:  # noqa: BLE001
            continue
        out |= {k for k, v in conv.items() if isinstance(v, DataNode)}
    return out


def _same(v, ref):
    import pandas as pd
    from vf.gen import frames
    from vf.mon.compare import compare_arrays

    if isinstance(ref, np.ndarray):
        return compare_arrays(v, ref)
    if isinstance(ref, (pd.DataFrame, pd.Series)):
        return frames.compare(v, ref)
    return None if (type(v) is type(ref) and v == ref) or v == ref else ("values", "%r vs %r" % (v, ref))


def _run_logged(colls, threads):
    """compute with optimize_graph=False under a recorder callback; returns (values, events)."""
    import dask
    from dask.callbacks import Callback

    G.reset_log()
    with Callback(*S.recorder("rec")):
        vals = dask.compute(*colls, scheduler="threads" if threads else "sync", optimize_graph=False,
                            **({"num_workers": 3} if threads else {}))
    return vals, G.events()


def run_case(case, ctx):
    import dask
    from dask import graph_manipulation as gm

    warnings.simplefilter("ignore")
    r = random.Random(case["seed"])
    op = case["op"]
    kinds = case["kinds"][: case["ncoll"]]
    made = [_make(k, r) for k in kinds]
    colls = [m[0] for m in made]
    refs = [m[1] for m in made]
    # mechanism feature: the collection kind that is regenerated (bind: the child), else the set of kinds;
    # expression-backed dataframes take a different code path, so their presence is its own feature
    if "frame" in kinds:
        feat = "%s:dataframe-among-collections" % op
    elif op == "bind":
        feat = "%s:child=%s" % (op, kinds[0])
    else:
        feat = "%s:%s" % (op, "+".join(sorted(set(kinds))))
    ctx.op(op)
    ctx.count(op + "_calls")
    ctx.nontrivial = len(colls) >= 2 or any(len(_keys(c)) >= 2 for c in colls)
    threads = case["threads"]

    def post_times(events):
        return {ev[3]: ev[0] for ev in events if ev[1] == "cb_post"}

    def pre_times(events):
        return {ev[3]: ev[0] for ev in events if ev[1] == "cb_pre"}

    try:
        if op == "clone":
            omit = None
            if case["omit"]:
                # `omit` names upstream collections that must NOT be regenerated: derive a dependent child from
                # colls[0] and clone the child while omitting its parent
                parent, pref = colls[0], refs[0]
                k0 = kinds[0]
                if k0 == "array":
                    child, cref0 = parent + 10, pref + 10
                elif k0 == "bag":
                    child, cref0 = parent.map(_inc), [v + 1 for v in pref]
                elif k0 == "delayed":
                    child, cref0 = dask.delayed(_add)(parent, 5), pref + 5
                else:
                    child, cref0 = parent.assign(q=parent.a * 3), pref.assign(q=pref.a * 3)
                colls, refs, omit = [child] + colls[1:], [cref0] + refs[1:], parent
                if "frame" not in kinds:
                    # mechanism features: which kind of child is regenerated, and whether the key-level
                    # algorithm (assume_layers=False) is asked to leave the parent's keys alone
                    feat = "clone:child=%s:omit-parent%s" % (k0, "" if case["assume_layers"] else "&assume_layers=False")
            out = gm.clone(*colls, omit=omit, seed=case["cseed"], assume_layers=case["assume_layers"])
            out = [out] if len(colls) == 1 else list(out)
            if omit is not None:
                gkeys = set(out[0].__dask_graph__())
                lost = _keys(omit) - gkeys
                if lost:
                    ctx.violation(feat + ":omitted-parent-was-regenerated",
                                  "output keys of the omitted parent are not in the clone's graph: %r" % (sorted(map(repr, lost))[:3],))
                    return
            for i, (o, c, ref) in enumerate(zip(out, colls, refs)):
                if type(o) is not type(c):
                    ctx.violation(feat + ":collection-type-changed", "%s -> %s" % (type(c).__name__, type(o).__name__))
                    return
                shared = _keys(o) & _keys(c)
                omitted = False
                if shared and not omitted:
                    ctx.violation(feat + ":output-key-shared-with-original", "shared %r" % (sorted(map(repr, shared))[:4],))
                    return
                v = o.compute(scheduler="sync")
                ctx.count("values_compared")
                m = _same(v, ref)
                if m:
                    ctx.violation(feat + ":value-changed:" + m[0], m[1])
                    return
            # clones must also be computable together with the originals (all keys distinct or equal-valued)
            vals = dask.compute(*(out + colls), scheduler="sync")
            for v, ref in zip(vals, refs + refs):
                m = _same(v, ref)
                if m:
                    ctx.violation(feat + ":value-changed-when-computed-with-originals:" + m[0], m[1])
                    return
        elif op == "bind":
            if len(colls) < 2:
                colls.append(_make("array", r)[0])
                refs.append(None)
            children, parents = colls[:1], colls[1:]
            cref = refs[:1]
            omit = [parents[0]] if case["omit"] else None
            base_keys = set()
            if case["omit"] and case["seed"] % 2 and kinds[0] in ("array", "bag", "delayed"):
                # the meaningful use of omit=: the child is derived from a base collection that must not be regenerated;
                # the tasks of the child above the base are regenerated and have to wait for the parents
                base, bref, k0 = children[0], cref[0], kinds[0]
                if k0 == "array":
                    ch, chref = (base + 10).rechunk(tuple(max(1, sum(c)) for c in base.chunks)) if case["seed"] % 4 == 1 else base + 10, bref + 10
                elif k0 == "bag":
                    ch, chref = base.map(_inc), [v + 1 for v in bref]
                else:
                    ch, chref = dask.delayed(_add)(base, 5), bref + 5
                children, cref, omit = [ch], [chref], base
                base_keys = set(base.__dask_graph__())
                feat = "bind:child=%s:omit-base-of-child%s" % (k0, "" if case["assume_layers"] else "&assume_layers=False")
                ctx.count("bind_with_omitted_base")
            out = gm.bind(children[0], parents, omit=omit, seed=case["cseed"], assume_layers=case["assume_layers"],
                          split_every=case["split_every"])
            vals, events = _run_logged([out], threads)
            ctx.count("values_compared")
            m = _same(vals[0], cref[0])
            if m:
                ctx.violation(feat + ":value-changed:" + m[0], m[1])
                return
            post, pre = post_times(events), pre_times(events)
            pkeys = set().union(*[_keys(p) for p in parents])
            orig_child_keys = set(children[0].__dask_graph__())
            parent_graph_keys = set().union(*[set(p.__dask_graph__()) for p in parents])
            if base_keys:
                # with the base omitted, the regenerated tasks are the executed ones outside the base and the parents
                orig_child_keys = base_keys
            regenerated = [k for k in pre if k not in orig_child_keys and k not in parent_graph_keys
                           and not str(k if not isinstance(k, tuple) else k[0]).startswith("checkpoint")]
            for k in _data_keys(parents) & pkeys:
                post.setdefault(k, -1)
            missing = [k for k in pkeys if k not in post]
            if missing:
                ctx.violation(feat + ":parent-not-computed", "parent output keys never finished: %r" % (missing[:3],))
                return
            last_parent = max(post[k] for k in pkeys)
            if base_keys and not regenerated:
                ctx.violation(feat + ":no-regenerated-child-task-ran", "no task of the child above the omitted base was executed")
                return
            for k in regenerated:
                ctx.count("ordering_edges_checked")
                if pre[k] < last_parent:
                    ctx.violation(feat + ":child-task-started-before-parents-finished",
                                  "task %r started at %d, last parent output finished at %d" % (k, pre[k], last_parent))
                    return
        elif op == "wait_on":
            out = gm.wait_on(*colls, split_every=case["split_every"])
            out = [out] if len(colls) == 1 else list(out)
            vals, events = _run_logged(out, threads)
            for v, ref in zip(vals, refs):
                ctx.count("values_compared")
                m = _same(v, ref)
                if m:
                    ctx.violation(feat + ":value-changed:" + m[0], m[1])
                    return
            post, pre = post_times(events), pre_times(events)
            inkeys = set().union(*[_keys(c) for c in colls])
            for k in _data_keys(colls) & inkeys:
                post.setdefault(k, -1)
            missing = [k for k in inkeys if k not in post]
            if missing:
                ctx.violation(feat + ":input-not-computed", "input output keys never finished: %r" % (missing[:3],))
                return
            last_in = max(post[k] for k in inkeys)
            for o in out:
                for k in _keys(o):
                    ctx.count("ordering_edges_checked")
                    if k in pre and pre[k] < last_in:
                        ctx.violation(feat + ":dependent-started-before-all-inputs-finished",
                                      "output task %r started at %d, last input chunk finished at %d" % (k, pre[k], last_in))
                        return
        else:
            cp = gm.checkpoint(*colls, split_every=case["split_every"])
            vals, events = _run_logged([cp], threads)
            ctx.count("values_compared")
            if vals[0] is not None:
                ctx.violation(feat + ":checkpoint-value-not-None", repr(vals[0])[:100])
                return
            post = post_times(events)
            inkeys = set().union(*[_keys(c) for c in colls])
            for k in _data_keys(colls) & inkeys:
                post.setdefault(k, -1)
            missing = [k for k in inkeys if k not in post]
            if missing:
                ctx.violation(feat + ":input-chunk-not-computed", "never finished: %r" % (missing[:3],))
                return
            if cp.key not in post:
                ctx.violation(feat + ":checkpoint-key-not-computed", repr(cp.key))
                return
            for k in inkeys:
                ctx.count("ordering_edges_checked")
                if post[k] > post[cp.key]:
                    ctx.violation(feat + ":checkpoint-finished-before-input-chunk", "chunk %r finished after the checkpoint" % (k,))
                    return
    except NotImplementedError as ex:
        ctx.unsupported(str(ex))
        return
    except Exception as ex:  # noqa: BLE001
        if feat.startswith("bind:child=array:omit-base-of-child&assume_layers=False"):
            # one mechanism (the key-level algorithm drops the omitted base's keys from the regenerated blockwise
            # layer), surfacing as "Missing dependency" ValueError or, on some graphs, a TypeError at compute
            ctx.violation(feat + ":raises", "%s: %s" % (type(ex).__name__, str(ex)[:300]))
            return
        ctx.exception(ex, prefix=feat)
        return
    ctx.sample = {"op": op, "kinds": kinds, "threads": threads}
