"""Harness stand-in for the `cachey` package (not installable here).

Only what dask.cache.Cache uses: nbytes(), Cache(available_bytes).put/get/data.
Eviction is seeded-random so that reuse and eviction paths are both driven."""
import random
import sys

_rng = random.Random(0)


def seed(n):
    _rng.seed(n)


def nbytes(o):
    try:
        return int(o.nbytes)
    except Exception:
        return sys.getsizeof(o)


class Cache:
    def __init__(self, available_bytes=2**30, *a, **k):
        self.available_bytes = available_bytes
        self.data = {}
        self.puts = 0
        self.evictions = 0

    def put(self, key, value, cost, nbytes=None):
        self.puts += 1
        self.data[key] = value
        # seeded random eviction keeps between 0 and all entries
        if self.data and _rng.random() < 0.25:
            victim = _rng.choice(sorted(self.data, key=repr))
            del self.data[victim]
            self.evictions += 1

    def get(self, key, default=None):
        return self.data.get(key, default)

    def clear(self):
        self.data.clear()
