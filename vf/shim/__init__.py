"""Harness-side stand-ins for packages that are not installed in this sandbox.
They change the environment, never dask."""
import os
import sys

HERE = os.path.dirname(os.path.abspath(__file__))


def install_pyarrow():
    """Import stub of pyarrow so that `import dask.dataframe` works on pandas-backed data.
    Must run AFTER pandas is imported (pandas must keep HAS_PYARROW False)."""
    import pandas  # noqa: F401

    p = os.path.join(HERE, "stubs")
    if p not in sys.path:
        sys.path.append(p)
    import dask

    dask.config.set({"dataframe.convert-string": False})


def install_cachey():
    p = os.path.join(HERE, "stubs_cachey")
    if p not in sys.path:
        sys.path.append(p)
    import cachey

    return cachey
