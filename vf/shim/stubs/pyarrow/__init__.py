"""Probe stub of pyarrow: import-only stand-in. Every attribute is a dummy class."""
import sys, types
__version__ = "16.0.0"
_cache = {}
class _Meta(type):
    def __getattr__(cls, name):
        if name.startswith("__"): raise AttributeError(name)
        return _dummy(cls.__name__ + "." + name)
def _dummy(qual):
    if qual not in _cache:
        _cache[qual] = _Meta(qual.rsplit(".",1)[-1], (), {"__module__": "pyarrow", "_qual": qual,
            "__init__": lambda self,*a,**k: None,
            "__eq__": lambda s,o: type(s) is type(o), "__hash__": lambda s: hash(type(s)._qual)})
    return _cache[qual]
class _Mod(types.ModuleType):
    def __getattr__(self, name):
        if name.startswith("__"): raise AttributeError(name)
        return _dummy(self.__name__ + "." + name)
for _n in ("fs","compute","dataset","parquet","types","lib"):
    _m = _Mod("pyarrow."+_n); sys.modules["pyarrow."+_n] = _m; globals()[_n] = _m
def set_cpu_count(n): pass
def __getattr__(name):
    if name.startswith("__"): raise AttributeError(name)
    return _dummy("pyarrow." + name)
