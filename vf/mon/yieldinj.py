"""Yield injection: sys.monitoring LINE events on chosen code objects release
the GIL (time.sleep(0)) or sleep a few microseconds with a seeded probability.
Only statement boundaries fire, which are real preemption points for threads,
so no interleaving is manufactured that the program cannot have."""
from __future__ import annotations

import random
import sys
import time
from contextlib import contextmanager

TOOL = 3


class _S:
    rng = random.Random(0)
    p = 0.0
    injected = 0
    lines = set()
    registered = False


def _on_line(code, lineno):
    _S.lines.add((code.co_name, lineno))
    r = _S.rng.random()
    if r < _S.p:
        _S.injected += 1
        time.sleep(0 if r < _S.p * 0.7 else 0.0002)


@contextmanager
def inject(funcs, seed, p=0.2):
    mon = sys.monitoring
    codes = []
    for f in funcs:
        c = getattr(f, "__code__", f)
        codes.append(c)
        for k in c.co_consts:  # nested functions such as get_async.fire_tasks
            if hasattr(k, "co_code"):
                codes.append(k)
    if not _S.registered:
        try:
            mon.use_tool_id(TOOL, "vf-yield")
        except ValueError:
            pass
        mon.register_callback(TOOL, mon.events.LINE, _on_line)
        _S.registered = True
    _S.rng = random.Random(seed)
    _S.p = p
    for c in codes:
        mon.set_local_events(TOOL, c, mon.events.LINE)
    try:
        yield _S
    finally:
        for c in codes:
            mon.set_local_events(TOOL, c, 0)
