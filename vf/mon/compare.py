"""Comparison discipline for NumPy differentials (DESIGN 4.5).

compare_arrays(result, expected, ...) returns None when they agree, else a
(kind, message) pair with kind in {shape, dtype, values, type}.  Exact
operations use NaN-aware equality; floating reductions use the tolerance that
reassociated summation implies, not a loose constant.
"""
from __future__ import annotations

import numpy as np


def _as(x):
    if isinstance(x, np.ma.MaskedArray):
        return x
    return np.asarray(x)


def float_tol(dtype, n=1, scale=1.0, factor=8.0):
    """rtol/atol for a floating result computed by reassociating n terms of magnitude <= scale."""
    dt = np.dtype(dtype)
    if dt.kind == "c":
        dt = np.dtype("float64") if dt == np.dtype("complex128") else np.dtype("float32")
    if dt.kind != "f":
        return 0.0, 0.0
    eps = float(np.finfo(dt).eps)
    rtol = factor * eps * max(int(n), 1)
    atol = rtol * float(scale)
    return rtol, atol


def compare_arrays(r, e, exact=True, n=1, scale=1.0, check_dtype=True, factor=8.0):
    """Shape, dtype, then values (NaN == NaN, signed infinities must match)."""
    if isinstance(e, np.ma.MaskedArray) or isinstance(r, np.ma.MaskedArray):
        return compare_masked(r, e, exact=exact, n=n, scale=scale, check_dtype=check_dtype)
    r, e = _as(r), _as(e)
    if r.shape != e.shape:
        return ("shape", "shape %s vs expected %s" % (r.shape, e.shape))
    if check_dtype and r.dtype != e.dtype:
        return ("dtype", "dtype %s vs expected %s" % (r.dtype, e.dtype))
    try:
        if exact or e.dtype.kind not in "fc":
            np.testing.assert_array_equal(r, e)
        else:
            rtol, atol = float_tol(e.dtype, n=n, scale=scale, factor=factor)
            np.testing.assert_allclose(r, e, rtol=rtol, atol=atol, equal_nan=True)
    except AssertionError as ex:
        return ("values", "values differ: " + " ".join(str(ex).split())[:300])
    except Exception as ex:  # noqa: BLE001  (e.g. comparing object arrays)
        return ("values", "comparison failed: %r" % (ex,))
    return None


def compare_masked(r, e, exact=True, n=1, scale=1.0, check_dtype=True):
    if not isinstance(r, np.ma.MaskedArray) or not isinstance(e, np.ma.MaskedArray):
        if isinstance(e, np.ma.MaskedArray) != isinstance(r, np.ma.MaskedArray):
            # numpy.ma reductions may return np.ma.masked or plain scalars
            if e is np.ma.masked or r is np.ma.masked:
                return None if (e is np.ma.masked) == (r is np.ma.masked) else ("type", "masked constant vs value")
            return ("type", "%s vs expected %s" % (type(r).__name__, type(e).__name__))
    rm, em = np.ma.getmaskarray(r), np.ma.getmaskarray(e)
    if rm.shape != em.shape:
        return ("shape", "shape %s vs expected %s" % (rm.shape, em.shape))
    if check_dtype and r.dtype != e.dtype:
        return ("dtype", "dtype %s vs expected %s" % (r.dtype, e.dtype))
    if not np.array_equal(rm, em):
        return ("mask", "mask differs: %s vs expected %s" % (rm.tolist(), em.tolist()))
    rd = np.ma.getdata(r)[~rm]
    ed = np.ma.getdata(e)[~em]
    return compare_arrays(rd, ed, exact=exact, n=n, scale=scale, check_dtype=False)


def lazy_meta_mismatch(darr, value):
    """Lazy .shape/.dtype/.chunks of a dask array vs its computed value (nan sizes match anything)."""
    v = _as(value)
    shp = tuple(darr.shape)
    if len(shp) != v.ndim or any((not (isinstance(a, float) and np.isnan(a))) and a != b for a, b in zip(shp, v.shape)):
        return ("lazy-shape", "lazy shape %s vs computed %s" % (shp, v.shape))
    if darr.dtype != v.dtype:
        return ("lazy-dtype", "lazy dtype %s vs computed %s" % (darr.dtype, v.dtype))
    for ax, cs in enumerate(darr.chunks):
        known = [c for c in cs if not (isinstance(c, float) and np.isnan(c))]
        if len(known) == len(cs) and sum(cs) != v.shape[ax]:
            return ("lazy-chunks", "chunks %s on axis %d do not add up to %d" % (cs, ax, v.shape[ax]))
    return None


def blocks_mismatch(darr):
    """Each block computed separately has the shape .chunks declares; blocks reassemble to the whole.
    Returns (kind, msg) or None.  Skips arrays with unknown chunk sizes."""
    import dask

    if any(isinstance(c, float) and np.isnan(c) for cs in darr.chunks for c in cs):
        return None
    whole = np.asarray(darr.compute(scheduler="sync"))
    if darr.ndim == 0:
        return None
    import itertools

    offs = [np.concatenate([[0], np.cumsum(cs)]) for cs in darr.chunks]
    for idx in itertools.product(*[range(len(cs)) for cs in darr.chunks]):
        blk = np.asarray(darr.blocks[idx].compute(scheduler="sync"))
        exp_shape = tuple(darr.chunks[a][i] for a, i in enumerate(idx))
        if blk.shape != exp_shape:
            return ("block-shape", "block %s has shape %s, chunks declare %s" % (idx, blk.shape, exp_shape))
        if blk.dtype != darr.dtype:
            return ("block-dtype", "block %s has dtype %s, lazy dtype %s" % (idx, blk.dtype, darr.dtype))
        sl = tuple(slice(int(offs[a][i]), int(offs[a][i + 1])) for a, i in enumerate(idx))
        try:
            np.testing.assert_array_equal(blk, whole[sl])
        except AssertionError:
            return ("block-placement", "block %s differs from the slice %s of the whole result" % (idx, sl))
    return None
