"""Scheduler monitors: controlled executor + schedule explorer on the real
dask.local.get_async, a tracing result cache, callback recorder, and the
reference model that decides C01-C05 over the recorded event history.

Nothing in /repo is modified: `submit`, `cache=` and `callbacks=` are public
parameters of get_async and `dask.local.Queue` is a module global that the
harness rebinds in its own process.
"""
from __future__ import annotations

import queue as _queue
import random
import threading
from collections.abc import MutableMapping
from concurrent.futures import Executor, Future

from ..gen import graphs as G


class SchedulerHang(BaseException):
    """Logical hang: the scheduler waits on its queue while nothing is in flight."""


class Controller:
    """Decides which pending batch completes next.  decisions: explicit prefix, then policy."""

    def __init__(self, prefix=(), policy="first", rng=None, pct_points=()):
        self.pending = []      # [(future, fn, args, kwargs, submit#)]
        self.prefix = list(prefix)
        self.policy = policy
        self.rng = rng
        self.trace = []        # [(choice, fanout)]
        self.nsubmit = 0
        self.pct_points = set(pct_points)
        self.queue_gets = 0

    def submit(self, fn, *a, **k):
        f = Future()
        self.nsubmit += 1
        self.pending.append((f, fn, a, k, self.nsubmit))
        try:
            keys = [t[0] for t in a[0]]
        except Exception:  # noqa: BLE001
            keys = None
        G.log_event(("submit", self.nsubmit, keys))
        return f

    def step(self):
        if not self.pending:
            raise SchedulerHang()
        n = len(self.pending)
        pos = len(self.trace)
        if pos < len(self.prefix):
            i = self.prefix[pos] % n
        elif self.policy == "first":
            i = 0
        elif self.policy == "last":
            i = n - 1
        elif self.policy == "random":
            i = self.rng.randrange(n)
        elif self.policy == "pct":
            # oldest first, except at change points where the newest goes first
            i = n - 1 if pos in self.pct_points else 0
        else:
            raise AssertionError(self.policy)
        self.trace.append((i, n))
        f, fn, a, k, sid = self.pending.pop(i)
        G.log_event(("complete", sid, None))
        try:
            f.set_result(fn(*a, **k))
        except BaseException as e:  # noqa: BLE001
            f.set_exception(e)


_CTL = threading.local()
QUEUE_HITS = [0]


class MonitoredQueue(_queue.Queue):
    """Bound to dask.local.Queue while a controlled run is active."""

    def get(self, *a, **k):
        ctl = getattr(_CTL, "ctl", None)
        if ctl is not None:
            QUEUE_HITS[0] += 1
            ctl.queue_gets += 1
            if self.empty():
                ctl.step()
        return super().get(*a, **k)


def install_queue():
    import dask.local as L

    if L.Queue is not MonitoredQueue:
        L.Queue = MonitoredQueue


class ControlledExecutor(Executor):
    """Executor facade over a Controller (for dask.compute(scheduler=executor) / threaded.get(pool=...))."""

    def __init__(self, ctl, max_workers=2):
        self.ctl = ctl
        self._max_workers = max_workers

    def submit(self, fn, *a, **k):
        return self.ctl.submit(fn, *a, **k)


class TracingCache(MutableMapping):
    """The scheduler's own result store, observed."""

    def __init__(self):
        self.d = {}

    def __getitem__(self, k):
        G.log_event(("cget", k, k in self.d))
        return self.d[k]

    def __setitem__(self, k, v):
        G.log_event(("cset", k, None))
        self.d[k] = v

    def __delitem__(self, k):
        G.log_event(("cdel", k, None))
        del self.d[k]

    def __iter__(self):
        return iter(self.d)

    def __len__(self):
        return len(self.d)

    def __contains__(self, k):
        return k in self.d


def state_digest(state):
    try:
        return (len(state.get("ready", ())), tuple(sorted(map(repr, state.get("running", ())))),
                tuple(sorted(map(repr, state.get("waiting", ())))), tuple(sorted(map(repr, state.get("cache", ())))),
                tuple(sorted(map(repr, state.get("released", ())))))
    except Exception:  # noqa: BLE001
        return None


class CallbackBoom(Exception):
    """Raised by a recorder callback when the fault plan names it."""


# fault plan for recorder callbacks: {"tag": ..., "hook": "start"|"start_state"|"pretask"|"posttask"} -> that hook of
# that callback raises CallbackBoom (after logging that it was called); None = no fault
FAULT = {"tag": None, "hook": None}


def _fault(tag, hook):
    if FAULT["tag"] == tag and FAULT["hook"] == hook:
        G.log_event(("cb_raise", tag, hook))
        raise CallbackBoom("%s.%s" % (tag, hook))


def recorder(tag="cb"):
    """A 5-tuple of callbacks logging into the event log."""
    def start(dsk):
        G.log_event(("cb_start", tag, None))
        _fault(tag, "start")
        G.log_event(("cb_started", tag, None))

    def start_state(dsk, state):
        G.log_event(("cb_start_state", tag, state_digest(state)))
        _fault(tag, "start_state")

    def pretask(key, dsk, state):
        G.log_event(("cb_pre", tag, key, state_digest(state)))
        _fault(tag, "pretask")

    def posttask(key, result, dsk, state, worker_id):
        G.log_event(("cb_post", tag, key, state_digest(state)))
        _fault(tag, "posttask")

    def finish(dsk, state, failed):
        G.log_event(("cb_finish", tag, failed, sorted(map(repr, state.get("released", ()))) if state else None))

    return (start, start_state, pretask, posttask, finish)


class Obs:
    """Everything observed during one scheduler call."""

    def __init__(self):
        self.result = None
        self.exc = None
        self.events = []
        self.trace = []
        self.cache_keys_at_return = None
        self.queue_gets = 0
        self.hang = False


def run_controlled(dsk, keys, num_workers=2, chunksize=1, prefix=(), policy="first", rng=None,
                   pct_points=(), callbacks=None, trace_cache=True, extra_kwargs=None):
    """One call of the real get_async under the controlled executor."""
    import dask.local as L

    install_queue()
    ctl = Controller(prefix, policy, rng, pct_points)
    obs = Obs()
    G.reset_log()
    cache = TracingCache() if trace_cache else None
    cbs = [recorder()] if callbacks is None else callbacks
    if callbacks == "global":
        cbs = None  # let get_async use whatever Callback.active holds (C05)
    _CTL.ctl = ctl
    kw = dict(cache=cache, callbacks=cbs, chunksize=chunksize)
    kw.update(extra_kwargs or {})
    try:
        obs.result = L.get_async(ctl.submit, num_workers, dsk, keys, **kw)
    except SchedulerHang as e:
        obs.hang = True
        obs.exc = e
    except BaseException as e:  # noqa: BLE001
        if type(e).__name__ in ("CaseTimeout", "KeyboardInterrupt", "StepBoundExceeded"):
            raise
        obs.exc = e
    finally:
        _CTL.ctl = None
    obs.events = G.events()
    obs.trace = list(ctl.trace)
    obs.queue_gets = ctl.queue_gets
    obs.cache_keys_at_return = set(cache.d) if cache is not None else None
    obs.leftover_pending = len(ctl.pending)
    return obs


def explore(run, cap):
    """Stateless DFS over completion orders.  `run(prefix)` -> Obs (with .trace).
    Yields every Obs; returns (#runs, exhausted?) via StopIteration value."""
    stack = [[]]
    runs = 0
    while stack and runs < cap:
        prefix = stack.pop()
        obs = run(prefix)
        runs += 1
        yield obs
        tr = obs.trace
        for pos in range(len(prefix), len(tr)):
            i, n = tr[pos]
            for alt in range(1, n):
                stack.append([t[0] for t in tr[:pos]] + [alt])
    return runs, not stack


# ---------------------------------------------------------------------------
# reference model over the event history

class Model:
    """Knows only the program (harness), the requested keys and the event log."""

    def __init__(self, prog, req):
        self.prog = prog
        self.req_keys = set(G.flatten_req(req))
        self.req_idx = {prog.bykey[k].idx for k in self.req_keys}
        self.need = prog.needed(self.req_idx)
        self.dm = prog.dep_map()
        self.val = prog.evaluate()
        self.argd = prog.arg_digests(self.val)
        self.key2idx = {n.key: n.idx for n in prog.nodes}
        self.failed_anc = {}
        for n in prog.nodes:  # nodes downstream of a failing node
            fa = set()
            if n.kind == "call" and n.fail:
                fa.add(n.idx)
            for d in self.dm[n.idx]:
                fa |= self.failed_anc[d]
            self.failed_anc[n.idx] = fa

    # which needed nodes are "tasks" for the scheduler (not plain data)
    def task_nodes(self):
        return {i for i in self.need if self.prog.nodes[i].kind != "lit"}

    def call_nodes(self):
        return {i for i in self.need if self.prog.nodes[i].kind == "call"}


def check_values(model, req, obs, out):
    """C01: returned value == harness evaluation, packed like the request."""
    if obs.exc is not None:
        out("exception-on-valid-graph", "scheduler raised %r" % (obs.exc,))
        return
    byk = {n.key: model.val[n.idx] for n in model.prog.nodes}
    exp = G.pack_expected(req, byk)
    if not _same(obs.result, exp):
        kind = "packing" if _flat(obs.result) == _flat(exp) else "value"
        out("wrong-" + kind, "expected %r got %r" % (exp, obs.result))


def _flat(x):
    if isinstance(x, tuple) and not (len(x) == 2 and isinstance(x[0], str) and x[0] in "fgh"):
        o = []
        for y in x:
            o.extend(_flat(y))
        return o
    return [repr(x)]


def _same(a, b):
    if type(a) is not type(b):
        return False
    if isinstance(a, (list, tuple)):
        return len(a) == len(b) and all(_same(x, y) for x, y in zip(a, b))
    if isinstance(a, dict):
        return a.keys() == b.keys() and all(_same(a[k], b[k]) for k in a)
    if isinstance(a, float):
        return repr(a) == repr(b)
    return a == b


def check_once(model, obs, out, threaded=False):
    """C02: each needed task exactly once, nothing else, only after deps, with their values."""
    starts, ends, pre, post = {}, {}, {}, {}
    cset = {}
    for ev in obs.events:
        clk, kind = ev[0], ev[1]
        if kind == "start":
            starts.setdefault(ev[2], []).append((clk, ev[3]))
        elif kind == "end":
            ends.setdefault(ev[2], []).append(clk)
        elif kind == "cb_pre":
            pre.setdefault(ev[3], []).append(clk)
        elif kind == "cb_post":
            post.setdefault(ev[3], []).append(clk)
        elif kind == "cset":
            cset.setdefault(ev[2], []).append(clk)
    calls = model.call_nodes()
    failed = obs.exc is not None
    for i, lst in starts.items():
        if i not in calls:
            out("unneeded-task-executed", "node %d ran but is not needed for %r" % (i, sorted(map(repr, model.req_keys))))
        if len(lst) > 1:
            out("task-executed-twice", "node %d started %d times" % (i, len(lst)))
    if not failed:
        for i in calls:
            if i not in starts:
                out("needed-task-not-executed", "node %d never started" % i)
    # pretask view (covers alias / seq nodes too)
    tasks = {model.prog.nodes[i].key for i in model.task_nodes()}
    # a literal may legitimately be scheduled as a task (legacy emission wraps key-like / container
    # literals in a `literal` call), so "unneeded" means outside the needed set of any kind
    needed_keys = {model.prog.nodes[i].key for i in model.need}
    for k, lst in pre.items():
        if k not in needed_keys:
            out("unneeded-key-scheduled", "pretask for %r which is not a needed task" % (k,))
        if len(lst) > 1:
            out("key-scheduled-twice", "pretask for %r fired %d times" % (k, len(lst)))
    if not failed:
        for k in tasks:
            if k not in pre:
                out("needed-key-not-scheduled", "no pretask for needed key %r" % (k,))
    # ordering: a task is dispatched (pretask) only after every dependency's result is stored
    for k, lst in pre.items():
        i = model.key2idx.get(k)
        if i is None:
            continue
        for d in model.dm[i]:
            dk = model.prog.nodes[d].key
            ok = dk in cset and min(cset[dk]) < lst[0]
            if not ok:
                out("dispatched-before-dependency-finished",
                    "pretask(%r) at %d but dependency %r stored at %r" % (k, lst[0], dk, cset.get(dk)))
    # a task function starts only after its dependencies' functions ended
    for i, lst in starts.items():
        for d in model.dm.get(i, ()):
            if model.prog.nodes[d].kind == "call" and not model.prog.nodes[d].fail:
                if d not in ends or min(ends[d]) > lst[0][0]:
                    out("started-before-dependency-ended", "node %d started at %d, dependency %d ended %r" % (i, lst[0][0], d, ends.get(d)))
    # received the computed values
    for i, lst in starts.items():
        exp = model.argd.get(i)
        if exp is not None:
            for _, dig in lst:
                if dig != exp:
                    out("wrong-argument-values", "node %d received argument digest %s, expected %s" % (i, dig, exp))


def check_release(model, obs, out):
    """C03: nothing released early, requested never released, nothing else left at return."""
    setk, delk = {}, {}
    for ev in obs.events:
        clk, kind = ev[0], ev[1]
        if kind == "cset":
            setk.setdefault(ev[2], clk)
        elif kind == "cdel":
            k = ev[2]
            delk.setdefault(k, []).append(clk)
            i = model.key2idx.get(k)
            if k in model.req_keys:
                out("requested-result-released", "cache del of requested key %r" % (k,))
            if i is not None:
                for j in model.need:
                    if i in model.dm[j]:
                        jk = model.prog.nodes[j].key
                        if jk not in setk:
                            out("released-before-dependent-finished",
                                "%r deleted at %d while dependent %r has no result yet" % (k, clk, jk))
        elif kind == "cget":
            if not ev[3]:
                out("read-after-release", "cache read of %r which is not stored" % (ev[2],))
    for k, l in delk.items():
        if len(l) > 1:
            out("released-twice", "%r deleted %d times" % (k, len(l)))
    if obs.exc is None and obs.cache_keys_at_return is not None:
        left = obs.cache_keys_at_return
        if left != model.req_keys:
            extra = left - model.req_keys
            missing = model.req_keys - left
            if extra:
                out("leaked-intermediate-result", "cache at return still holds %r" % (sorted(map(repr, extra)),))
            if missing:
                out("requested-result-missing-at-return", "cache at return lacks %r" % (sorted(map(repr, missing)),))
        # bookkeeping agrees with what was really deleted
        fin = [ev for ev in obs.events if ev[1] == "cb_finish"]
        if fin and fin[-1][4] is not None:
            released = set(fin[-1][4])
            real = set(map(repr, delk))
            if released != real:
                out("released-set-disagrees-with-deletions", "state['released']=%r deletions=%r" % (sorted(released), sorted(real)))


def check_failure(model, obs, out, subclass_ok=False):
    """C04: exception type/message, no descendant ran, finish once with failed flag, no hang."""
    started = {ev[2] for ev in obs.events if ev[1] == "start"}
    raised = {ev[2] for ev in obs.events if ev[1] == "raise"}
    fin = [ev for ev in obs.events if ev[1] == "cb_finish"]
    if obs.hang:
        out("hang", "scheduler waits on its queue with nothing in flight (after %d decisions)" % len(obs.trace))
        return
    anyfail_needed = any(model.prog.nodes[i].fail for i in model.need)
    if not anyfail_needed:
        return
    if obs.exc is None:
        if raised:
            out("failure-swallowed", "tasks %r raised but the call returned %r" % (sorted(raised), obs.result))
        else:
            out("failing-task-never-ran", "a needed task fails but the call returned normally")
    else:
        ok = False
        for i in raised:
            n = model.prog.nodes[i]
            et = G.EXC[n.fail]
            msg = "boom-%d" % i
            if isinstance(obs.exc, et) and (msg in str(obs.exc) or any(msg == a for a in getattr(obs.exc, "args", ()))):
                ok = True
        if not ok:
            out("wrong-exception", "raised %s(%s); failing tasks that ran: %r"
                % (type(obs.exc).__name__, str(obs.exc)[:120], [(i, model.prog.nodes[i].fail) for i in sorted(raised)]))
    for i in started:
        fa = model.failed_anc[i] - {i}
        if fa:
            out("descendant-of-failed-task-executed", "node %d ran although ancestor(s) %r fail" % (i, sorted(fa)))
    if len(fin) != 1:
        out("finish-callback-count", "finish fired %d times" % len(fin))
    elif fin[0][3] is not True:
        out("finish-flag-not-failed", "finish fired with failed=%r" % (fin[0][3],))


def check_callbacks(obs, out, tags=("cb",)):
    """C05 per-call protocol: start once before any task, pre exactly once before post exactly once, finish once at the end."""
    for tag in tags:
        evs = [ev for ev in obs.events if ev[1].startswith("cb_") and ev[2] == tag]
        kinds = [ev[1] for ev in evs]
        if kinds.count("cb_start") != 1:
            out("start-count", "%s: start fired %d times" % (tag, kinds.count("cb_start")))
        if kinds.count("cb_finish") != 1:
            out("finish-count", "%s: finish fired %d times" % (tag, kinds.count("cb_finish")))
        if kinds and kinds[-1] != "cb_finish":
            out("finish-not-last", "%s: last callback event is %s" % (tag, kinds[-1]))
        if kinds and kinds[0] != "cb_start":
            out("start-not-first", "%s: first callback event is %s" % (tag, kinds[0]))
        pre, post = {}, {}
        for ev in evs:
            if ev[1] == "cb_pre":
                pre.setdefault(ev[3], []).append(ev[0])
            elif ev[1] == "cb_post":
                post.setdefault(ev[3], []).append(ev[0])
        for k, l in pre.items():
            if len(l) != 1:
                out("pretask-count", "%s: %d pretask calls for %r" % (tag, len(l), k))
        for k, l in post.items():
            if len(l) != 1:
                out("posttask-count", "%s: %d posttask calls for %r" % (tag, len(l), k))
            if k not in pre:
                out("posttask-without-pretask", "%s: posttask for %r without pretask" % (tag, k))
            elif pre[k][0] > l[0]:
                out("posttask-before-pretask", "%s: key %r" % (tag, k))
        if obs.exc is None:
            for k in pre:
                if k not in post:
                    out("pretask-without-posttask", "%s: key %r on a successful call" % (tag, k))
