"""Sibling monitor: a parameter that changes the RESULT must change the NAME.

Every dask collection is addressed by its keys.  Two lazily built collections of
one case that differ in exactly one result-relevant parameter ("siblings") are
each right when computed alone even if the parameter was left out of the token
that names them; the defect only shows when both live in ONE graph
(``dask.compute(a, b)``, ``concatenate``, a key-addressed cache): one silently
overwrites the other.  The per-case differential oracles of the property modules
never see that, so this monitor looks at a case and a sibling of it:

1. **shared keys** — if any output key of ``a`` is also an output key of ``b``
   (``a.name == b.name`` for arrays and bags) while their separately computed
   values differ (or the assembled values are equal but cut into different blocks,
   so that the shared keys hold different values): violation
   ``<op>:<param>-not-in-name:siblings-share-keys``.
2. **computed together** — for a seeded fraction of the cases ``dask.compute(a, b)``
   is run as well and every result is compared with the stand-alone value:
   violation ``<op>:<param>:differs-when-computed-with-sibling`` (also when the joint
   computation raises although both stand-alone computations succeeded).  This catches
   collisions of INTERNAL keys even when the output names differ.

What is NOT demanded (false-alarm discipline):

* siblings whose stand-alone values are EQUAL may share keys (``x.rechunk(x.chunks)``,
  ``clip`` bounds outside the data range, ``astype`` to the dtype it already has);
  NaN == NaN, NaT == NaT, masked == masked;
* a sibling that cannot be built or computed on its own says nothing (its failure is the
  business of the module's own oracle on another case);
* only deterministic collections may be handed in (seeded generators only).

Counters (floored by the modules so that a run in which the facet never executed is
INCONCLUSIVE): ``siblings_built``, ``siblings_computed_together``,
``siblings_with_different_values``; informative: ``siblings_sharing_keys_equal_values``,
``siblings_not_built``, ``siblings_standalone_failed``.
"""
from __future__ import annotations

import hashlib
import warnings

FRACTION = 0.15


def want_together(case, fraction=FRACTION, salt=""):
    """Deterministic in the case description: True for about ``fraction`` of the cases."""
    from ..core.ctx import jdump

    h = hashlib.blake2b((salt + jdump(case)).encode("utf8", "replace"), digest_size=4).digest()
    return int.from_bytes(h, "big") / 2.0 ** 32 < fraction


def pick(case, n, salt="sib"):
    """Deterministic index in range(n) derived from the case (to choose which parameter to perturb)."""
    from ..core.ctx import jdump

    h = hashlib.blake2b((salt + jdump(case)).encode("utf8", "replace"), digest_size=4).digest()
    return int.from_bytes(h, "big") % max(int(n), 1)


def rng_for(case, salt="sib"):
    """A private random.Random for sibling choices (never touches the module's own stream)."""
    import random

    from ..core.ctx import jdump

    h = hashlib.blake2b((salt + jdump(case)).encode("utf8", "replace"), digest_size=8).digest()
    return random.Random(int.from_bytes(h, "big"))


# --------------------------------------------------------------------------- keys
def output_keys(coll):
    from dask.core import flatten

    try:
        return set(flatten(coll.__dask_keys__()))
    except Exception:  # noqa: BLE001
        return set()


def _name(coll):
    for attr in ("name", "_name", "key"):
        try:
            v = getattr(coll, attr)
        except Exception:  # noqa: BLE001
            continue
        if isinstance(v, str):
            return v
    return None


# --------------------------------------------------------------------------- values
def same_value(x, y):
    """Exact equality of two computed results; NaN == NaN, NaT == NaT, masked == masked.
    Different type / shape / dtype is a different value."""
    import numpy as np

    if x is y:
        return True
    if isinstance(x, (list, tuple)) or isinstance(y, (list, tuple)):
        if type(x) is not type(y) or len(x) != len(y):
            return False
        return all(same_value(p, q) for p, q in zip(x, y))
    if isinstance(x, dict) or isinstance(y, dict):
        if not (isinstance(x, dict) and isinstance(y, dict)) or len(x) != len(y):
            return False
        try:
            return all(k in y and same_value(v, y[k]) for k, v in x.items())
        except TypeError:
            return repr(x) == repr(y)
    if isinstance(x, (set, frozenset)) or isinstance(y, (set, frozenset)):
        return type(x) is type(y) and x == y
    xm, ym = isinstance(x, np.ma.MaskedArray), isinstance(y, np.ma.MaskedArray)
    if xm or ym:
        if xm != ym:
            return False
        if x.shape != y.shape or x.dtype != y.dtype:
            return False
        mx, my = np.ma.getmaskarray(x), np.ma.getmaskarray(y)
        if not np.array_equal(mx, my):
            return False
        return same_value(np.ma.getdata(x)[~mx], np.ma.getdata(y)[~my])
    xa = isinstance(x, (np.ndarray, np.generic))
    ya = isinstance(y, (np.ndarray, np.generic))
    if xa or ya:
        if not (xa and ya):
            # python scalar against numpy scalar: compare as arrays, dtype included
            try:
                x, y = np.asarray(x), np.asarray(y)
            except Exception:  # noqa: BLE001
                return False
        x, y = np.asarray(x), np.asarray(y)
        if x.shape != y.shape or x.dtype != y.dtype:
            return False
        if x.dtype.names:
            return all(same_value(x[n], y[n]) for n in x.dtype.names)
        if x.dtype.kind == "O":
            return all(same_value(p, q) for p, q in zip(x.ravel().tolist(), y.ravel().tolist()))
        try:
            if x.dtype.kind in "fcmM":
                return bool(np.array_equal(x, y, equal_nan=True))
            return bool(np.array_equal(x, y))
        except Exception:  # noqa: BLE001
            return x.tobytes() == y.tobytes()
    if isinstance(x, float) and isinstance(y, float):
        return x == y or (x != x and y != y)
    if isinstance(x, complex) and isinstance(y, complex):
        return same_value(x.real, y.real) and same_value(x.imag, y.imag)
    if type(x) is not type(y):
        # 1 == True == 1.0 in Python, but they are different results
        if isinstance(x, (bool, int, float, complex)) and isinstance(y, (bool, int, float, complex)):
            return False
    try:
        r = x == y
        if isinstance(r, (bool, np.bool_)):
            return bool(r)
    except Exception:  # noqa: BLE001
        pass
    return repr(x) == repr(y)


def _brief(v, n=160):
    import numpy as np

    try:
        if isinstance(v, np.ndarray):
            s = "%s%s %s" % (v.dtype, list(v.shape), np.array2string(v.ravel()[:8], threshold=8))
        else:
            s = repr(v)
    except Exception:  # noqa: BLE001
        s = "<%s>" % type(v).__name__
    s = " ".join(s.split())
    return s if len(s) <= n else s[: n - 3] + "..."


def _default_compute(coll):
    return coll.compute(scheduler="sync")


def _default_compute_many(colls):
    import dask

    return dask.compute(*colls, scheduler="sync")


def _block_list(coll):
    """Delayed objects of the output keys of a collection (array blocks / bag partitions), optimised as compute would."""
    d = coll.to_delayed()
    if hasattr(d, "ravel"):
        return d.ravel().tolist()
    return list(d) if isinstance(d, (list, tuple)) else [d]


def compute_blocks(coll):
    """Stand-alone evaluator for collections whose RESULT includes the block structure (rechunk, creation with other
    chunks): the list of values under the output keys, not the assembled array."""
    import dask

    (blocks,) = dask.compute(_block_list(coll), scheduler="sync")
    return [_reify(b) for b in blocks]


def compute_many_blocks(colls):
    import dask

    res = dask.compute(*[_block_list(c) for c in colls], scheduler="sync")
    return [[_reify(b) for b in blocks] for blocks in res]


def _reify(b):
    import numpy as np

    if isinstance(b, (np.ndarray, np.generic, list, tuple, dict, str, bytes, int, float, complex)) or b is None:
        return b
    if hasattr(b, "__next__"):
        return list(b)
    return b


def _nan_eq_tuple(p, q):
    if len(p) != len(q):
        return False
    for u, v in zip(p, q):
        if isinstance(u, tuple) or isinstance(v, tuple):
            if not (isinstance(u, tuple) and isinstance(v, tuple) and _nan_eq_tuple(u, v)):
                return False
        elif u != v and not (u != u and v != v):
            return False
    return True


def structure_differs(a, b):
    """Two arrays with different block structure hold different values under their keys even when the assembled
    arrays are equal (x.rechunk(c1) and x.rechunk(c2) under one name would be a collision)."""
    ca, cb = getattr(a, "chunks", None), getattr(b, "chunks", None)
    if isinstance(ca, tuple) and isinstance(cb, tuple):
        return not _nan_eq_tuple(ca, cb)
    na, nb = getattr(a, "npartitions", None), getattr(b, "npartitions", None)
    if isinstance(na, int) and isinstance(nb, int):
        return na != nb
    return False


# --------------------------------------------------------------------------- the monitor
def _as_list(x):
    """(list of dask collections, positions of them in x) for one collection or a tuple/list of outputs of one call
    (outputs that are not dask collections, e.g. NumPy bin edges, are left out)."""
    if hasattr(x, "__dask_graph__"):
        return [x], None
    if isinstance(x, (tuple, list)):
        pos = [i for i, c in enumerate(x) if hasattr(c, "__dask_graph__")]
        return [x[i] for i in pos], pos
    return [], None


def check(ctx, op, param, a, build_b, va=None, together=None, compute=None, compute_many=None, same=None,
          describe=None, salt=""):
    """Observe collection ``a`` of the running case next to one sibling.

    op, param    label parts (``<op>:<param>-not-in-name:...``); no random values in them
    a            the lazily built collection of the case, or the tuple of outputs of ONE call (np.unique style)
    build_b      the sibling (same form as ``a``), or a thunk building it (a thunk that raises / returns None:
                 nothing is observed)
    va           stand-alone value of ``a`` when the module computed it already (for a tuple: the tuple of values,
                 aligned with ``a``); saves a computation
    together     None -> seeded ~15 % of the cases (``want_together(ctx.case)``); True/False to force
    compute      stand-alone evaluator of one collection (default ``coll.compute(scheduler="sync")``)
    compute_many joint evaluator of a list of collections (default ``dask.compute(*colls, scheduler="sync")``); the
                 outputs of one call are evaluated with it, too (that is how the call is computed stand-alone)
    same         equality of two computed values (default ``same_value``)
    describe     small jsonable description of the sibling parameter for the witness

    Shared keys are looked for between every output of ``a`` and every output of ``b``; an output of the sibling that
    legitimately IS an output of the case (equal values, e.g. the bin edges of two histograms) is not reported.
    Returns True when a sibling was observed.
    """
    import numpy as np

    compute = compute or _default_compute
    compute_many = compute_many or _default_compute_many
    same_ = same or same_value

    def same(x, y):
        try:
            return bool(same_(x, y))
        except Exception:  # noqa: BLE001  (values that cannot be compared: fall back to their text)
            return repr(x) == repr(y)

    def alone(colls):
        return [compute(colls[0])] if len(colls) == 1 else list(compute_many(colls))

    with warnings.catch_warnings():
        warnings.simplefilter("ignore")
        with np.errstate(all="ignore"):
            try:
                b = build_b() if callable(build_b) and not hasattr(build_b, "__dask_graph__") else build_b
            except Exception:  # noqa: BLE001
                b = None
            A, posa = _as_list(a)
            B, _ = _as_list(b)
            if not A or not B:
                ctx.count("siblings_not_built")
                return False
            ctx.count("siblings_built")
            ctx.op("sibling:%s:%s" % (op, param))
            ka, kb = [output_keys(c) for c in A], [output_keys(c) for c in B]
            pairs = [(i, j, ka[i] & kb[j]) for i in range(len(A)) for j in range(len(B)) if ka[i] & kb[j]]
            if together is None:
                together = want_together(ctx.case, salt=salt)
            if not pairs and not together:
                return True
            try:
                if va is None:
                    VA = alone(A)
                else:
                    VA = [va] if posa is None else [va[i] for i in posa]
                VB = alone(B)
            except Exception:  # noqa: BLE001  (NotImplementedError included: the sibling's own failure is not this facet's business)
                ctx.count("siblings_standalone_failed")
                return True

            def differ(i, j):
                """different values, or equal assembled values cut into different blocks (the keys then hold different
                values); second item: only the structure differs"""
                if not same(VA[i], VB[j]):
                    return True, False
                if structure_differs(A[i], B[j]):
                    return True, True
                return False, False

            if len(A) != len(B) or any(differ(i, i)[0] for i in range(len(A))):
                ctx.count("siblings_with_different_values")
            nshared = sum(len(k) for _, _, k in pairs)
            reported = False
            for i, j, shared in pairs:
                d, only_structure = differ(i, j)
                if not d:
                    ctx.count("siblings_sharing_keys_equal_values")
                    continue
                if reported:
                    continue
                reported = True
                ex = sorted(map(repr, shared))[0]
                ctx.violation("%s:%s-not-in-name:siblings-share-keys" % (op, param),
                              "two collections that differ only in %s have %d output key(s) in common (e.g. %s; names %r / %r) "
                              "but compute different values: %s vs %s"
                              % (param, len(shared), ex, _name(A[i]), _name(B[j]),
                                 _brief(VA[i]) if not only_structure else "chunks %r" % (getattr(A[i], "chunks", None),),
                                 _brief(VB[j]) if not only_structure else "chunks %r" % (getattr(B[j], "chunks", None),)),
                              sibling=describe, shared_keys=len(shared))
            if not together:
                return True
            ctx.count("siblings_computed_together")
            names = [[_name(c) for c in A], [_name(c) for c in B]]
            try:
                J = list(compute_many(A + B))
            except Exception as e:  # noqa: BLE001
                ctx.violation("%s:%s:differs-when-computed-with-sibling" % (op, param),
                              "each of two collections that differ only in %s computes alone, computing both in one graph raises "
                              "%s: %s" % (param, type(e).__name__, " ".join(str(e).split())[:300]),
                              sibling=describe, names=names)
                return True
            for k, (joint, alone_v) in enumerate(zip(J, VA + VB)):
                if not same(joint, alone_v):
                    which = "the collection" if k < len(A) else "its sibling"
                    ctx.violation("%s:%s:differs-when-computed-with-sibling" % (op, param),
                                  "computed in one graph with a collection that differs only in %s, %s gives %s; alone it gives %s "
                                  "(names %r / %r)" % (param, which, _brief(joint), _brief(alone_v), names[0], names[1]),
                                  sibling=describe, shared_output_keys=nshared)
                    break
            return True
