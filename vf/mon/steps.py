"""Logical step bound: count LINE events of chosen code objects with
sys.monitoring and abort the call when a bound is exceeded.

This turns "the call never hangs / terminates" into a deterministic, clock-free
observation: a loop that does not terminate exceeds any bound, while the bound
is chosen orders of magnitude above what the real code needs on the input.
"""
from __future__ import annotations

import sys
from contextlib import contextmanager

TOOL = 4  # a free sys.monitoring tool id


class StepBoundExceeded(BaseException):
    pass


class _State:
    active = False
    count = 0
    bound = 0


def _on_line(code, lineno):
    _State.count += 1
    if _State.count > _State.bound:
        _State.bound = 1 << 62  # raise once
        raise StepBoundExceeded("more than %d line events" % _State.count)


@contextmanager
def bounded(funcs, bound):
    """Within the block, executing more than ``bound`` lines (in total) inside the
    given python functions raises StepBoundExceeded in the executing thread."""
    mon = sys.monitoring
    codes = [getattr(f, "__code__", f) for f in funcs]
    if not _State.active:
        try:
            mon.use_tool_id(TOOL, "vf-steps")
        except ValueError:
            pass
        mon.register_callback(TOOL, mon.events.LINE, _on_line)
        _State.active = True
    _State.count = 0
    _State.bound = bound
    for c in codes:
        mon.set_local_events(TOOL, c, mon.events.LINE)
    try:
        yield _State
    finally:
        for c in codes:
            mon.set_local_events(TOOL, c, 0)
