import numpy as np, random, itertools, warnings, traceback
import dask, dask.array as da
dask.config.set(scheduler='sync')
warnings.simplefilter('ignore')
def compositions(n):
    if n==0: return [(0,)]
    out=[]
    for mask in range(2**(n-1)):
        parts=[];cur=1
        for i in range(n-1):
            if mask>>i&1: parts.append(cur);cur=1
            else: cur+=1
        parts.append(cur); out.append(tuple(parts))
    return out
def rand_comp(rng,n):
    if n==0: return (0,)
    cuts=sorted(set(rng.sample(range(1,n),min(n-1,rng.randint(0,min(n-1,6))))) ) if n>1 else []
    b=[0]+cuts+[n]; return tuple(y-x for x,y in zip(b,b[1:]))
def rand_chunks(rng, shape):
    return tuple(rng.choice(compositions(n)) for n in shape)
def rand_shape(rng, maxnd=3, maxlen=6, minnd=0):
    nd=rng.randint(minnd,maxnd); return tuple(rng.choice([0,1,1,2,3,4,5,6][:maxlen+2]) for _ in range(nd))
def rand_data(rng, shape, dtype):
    r=np.random.default_rng(rng.randrange(2**32)); n=int(np.prod(shape)) if shape else 1
    if dtype=='bool': a=r.integers(0,2,n).astype(bool)
    elif dtype.startswith('int') or dtype.startswith('uint'): a=r.integers(0 if dtype[0]=='u' else -5,6,n).astype(dtype)
    elif dtype.startswith('float'):
        a=r.integers(-4,5,n).astype(dtype)/2
        if n and rng.random()<.4: a[r.integers(0,n,max(1,n//4))]=np.nan
        if n and rng.random()<.2: a[r.integers(0,n,1)]=np.inf
    elif dtype=='complex128': a=(r.integers(-3,4,n)+1j*r.integers(-3,4,n)).astype(dtype)
    elif dtype=='datetime64[ns]': a=(r.integers(0,10,n)*10**9).astype('datetime64[ns]')
    return a.reshape(shape)
def eq(r, e, approx=False):
    r=np.asarray(r) if not isinstance(r,np.ma.MaskedArray) else r; e=np.asarray(e) if not isinstance(e,np.ma.MaskedArray) else e
    if r.shape!=e.shape: return 'shape %s vs %s'%(r.shape,e.shape)
    if r.dtype!=e.dtype: return 'dtype %s vs %s'%(r.dtype,e.dtype)
    try:
        if approx and r.dtype.kind in 'fc': np.testing.assert_allclose(r,e,rtol=1e-10,atol=1e-12,equal_nan=True)
        else: np.testing.assert_array_equal(r,e)
    except AssertionError as ex: return 'values '+str(ex).replace('\n',' ')[:200]
    return None
class Stats:
    def __init__(s): s.n=0; s.rej=0; s.unsup=0; s.bad={}
    def report(s, tag, key, msg, case):
        s.bad.setdefault((tag,key),[]).append((msg,case))
    def dump(s, k=3):
        print('cases',s.n,'ref-rejected',s.rej,'unsupported',s.unsup,'alarm classes',len(s.bad))
        for (tag,key),v in sorted(s.bad.items(), key=lambda kv:-len(kv[1])):
            print('  [%s] %s x%d'%(tag,key,len(v)))
            for msg,case in v[:k]: print('      ',msg[:230],'|',case)
