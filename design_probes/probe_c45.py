import sys, itertools
import pandas as pd, numpy as np
sys.path.insert(0,'/tmp/probe/shim')
import dask; dask.config.set({'dataframe.convert-string': False})
from dask.dataframe.io.io import sorted_division_locations as sdl
bad={}; n=0
for L in range(1,9):
    for seq in itertools.combinations_with_replacement('ABCD',L):
        seq=list(seq); nd=len(set(seq)); arr=np.array(seq)
        for mode in ('np','cs'):
            for k in range(1,L+2):
                n+=1
                try: divs,locs=sdl(arr, npartitions=k) if mode=="np" else sdl(arr, chunksize=k)
                except Exception as e: bad.setdefault(('EXC',mode,type(e).__name__),[]).append((seq,k)); continue
                msgs=[]
                if locs[0]!=0 or locs[-1]!=len(seq) or any(b<=a for a,b in zip(locs,locs[1:])): msgs.append('locs')
                if len(divs)!=len(locs): msgs.append('len')
                else:
                    if any(divs[i]!=seq[locs[i]] for i in range(len(locs)-1)) or divs[-1]!=seq[-1]: msgs.append('divval')
                    if any(0<l<len(seq) and seq[l-1]==seq[l] for l in locs): msgs.append('straddle')
                if mode=='np' and nd>=k and len(locs)-1!=k: msgs.append('np-not-met')
                for m in msgs: bad.setdefault((m,mode),[]).append((''.join(seq),k,divs,locs))
print('calls',n)
for k,v in bad.items(): print(k,len(v),v[:3])
