import random, sys, time, itertools
from concurrent.futures import Future
from queue import Queue
from collections.abc import MutableMapping
import dask.local as L
from dask.local import get_async
class Hang(Exception): pass
class Ctl:
    def __init__(self, prefix): self.pending=[]; self.prefix=list(prefix); self.trace=[]
    def submit(self, fn, *a, **k):
        f=Future(); self.pending.append((f,fn,a,k)); return f
    def step(self):
        if not self.pending: raise Hang()
        n=len(self.pending); i=self.prefix[len(self.trace)] if len(self.trace)<len(self.prefix) else 0
        self.trace.append((i,n)); f,fn,a,k=self.pending.pop(i)
        try: f.set_result(fn(*a,**k))
        except BaseException as e: f.set_exception(e)
CTL=[None]; HITS=[0]
class MQ(Queue):
    def get(self,*a,**k):
        HITS[0]+=1
        if self.empty(): CTL[0].step()
        return super().get(*a,**k)
L.Queue=MQ
class TC(MutableMapping):
    def __init__(s,log): s.d={}; s.log=log
    def __getitem__(s,k): s.log.append(('get',k)); return s.d[k]
    def __setitem__(s,k,v): s.log.append(('set',k)); s.d[k]=v
    def __delitem__(s,k): s.log.append(('del',k)); del s.d[k]
    def __iter__(s): return iter(s.d)
    def __len__(s): return len(s.d)
def make_graph(n, edges, kinds):
    # node i depends on j<i if (j,i) in edges
    log=[]
    def mk(i):
        def f(*args):
            log.append(('start',i,tuple(args))); return ('v',i,tuple(a for a in args))
        return f
    dsk={}; exp={}
    for i in range(n):
        deps=[j for j in range(i) if (j,i) in edges]
        k='k%d'%i
        if kinds[i]=='data' and not deps: dsk[k]=('lit',i); exp[k]=('lit',i)  # tuple literal not callable-headed
        elif kinds[i]=='alias' and len(deps)==1: dsk[k]='k%d'%deps[0]; exp[k]=exp['k%d'%deps[0]]
        else: dsk[k]=(mk(i),)+tuple('k%d'%j for j in deps); exp[k]=('v',i,tuple(exp['k%d'%j] for j in deps))
    return dsk,exp,log
def explore(dsk,exp,log,keys,nw,cs,cap=3000):
    stack=[[]]; runs=0; orders=set(); viol=[]
    deps={k:set(x for x in (v[1:] if isinstance(v,tuple) and callable(v[0]) else ([v] if isinstance(v,str) else [])) if isinstance(x,str) and x in dsk) for k,v in dsk.items()}
    need=set(); st=list(keys)
    while st:
        k=st.pop()
        if k in need: continue
        need.add(k); st.extend(deps[k])
    dependents={k:{d for d in need if k in deps[d]} for k in need}
    while stack and runs<cap:
        prefix=stack.pop(); ctl=Ctl(prefix); CTL[0]=ctl; del log[:]; ev=[]; cache=TC(ev)
        fin=[]
        cb=(None,None,lambda k,d,s: ev.append(('pre',k)),lambda k,r,d,s,w: ev.append(('post',k)),lambda d,s,failed: fin.append(failed))
        try: r=get_async(ctl.submit,nw,dsk,list(keys),cache=cache,callbacks=[cb],chunksize=cs)
        except Hang: viol.append(('hang',prefix)); runs+=1; continue
        runs+=1
        if r!=tuple(exp[k] for k in keys): viol.append(('value',prefix,r))
        # exactly once
        starts=[e[1] for e in log]
        tasks={int(k[1:]) for k in need if isinstance(dsk[k],tuple) and callable(dsk[k][0])}
        if sorted(starts)!=sorted(tasks): viol.append(('once',prefix,starts,tasks))
        # cache: final
        if set(cache.d)!=set(keys): viol.append(('leak',prefix,set(cache.d)))
        setk=set()
        for e in ev:
            if e[0]=='set': setk.add(e[1])
            elif e[0]=='del':
                if e[1] in keys or not all(d in setk for d in dependents[e[1]]): viol.append(('early',prefix,e))
        if fin!=[False]: viol.append(('finish',fin))
        orders.add(tuple(e[1] for e in ev if e[0]=='post'))
        # expand
        for pos in range(len(prefix),len(ctl.trace)):
            i,n=ctl.trace[pos]
            for alt in range(1,n):
                stack.append([t[0] for t in ctl.trace[:pos]]+[alt])
    return runs,len(orders),viol,not stack
t=time.time(); total=0; allv=[]; nord=0; exhausted=0; graphs=0
n=int(sys.argv[1]) if len(sys.argv)>1 else 4
pairs=[(j,i) for i in range(n) for j in range(i)]
rng=random.Random(0)
for mask in range(2**len(pairs)):
    edges={p for b,p in enumerate(pairs) if mask>>b&1}
    kinds=[rng.choice(['task','task','data','alias']) for _ in range(n)]
    dsk,exp,log=make_graph(n,edges,kinds)
    for r in range(1,n+1):
        for keys in itertools.combinations(sorted(dsk),r):
            for nw,cs in [(1,1),(2,1),(3,2),(8,1)]:
                runs,no,viol,done=explore(dsk,exp,log,keys,nw,cs); total+=runs; nord+=no; exhausted+=done; graphs+=1
                if viol: allv.append((mask,kinds,keys,nw,cs,viol[:2]))
print('n',n,'configs',graphs,'runs',total,'orders',nord,'exhausted',exhausted,'viol',len(allv),'hits',HITS[0],round(time.time()-t,1),'s')
for v in allv[:5]: print(v)
