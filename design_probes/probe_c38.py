from df_common import *
rng=random.Random(int(sys.argv[1]) if len(sys.argv)>1 else 0); S=Stats()
N=int(sys.argv[2]) if len(sys.argv)>2 else 800
AGG=['sum','mean','min','max','count','size','first','last','var','std','nunique','prod','median_no','idxmin','idxmax']
for it in range(N):
    pdf=rand_frame(rng, index='range'); 
    if rng.random()<.3 and len(pdf): pdf.loc[pdf.index[::4],'b']=None
    df=rand_part(rng,pdf)
    by=rng.choice([['a'],['b'],['a','b'],['e']]); by=by[0] if len(by)==1 and rng.random()<.5 else by
    kind=rng.choice(['agg1','agglist','aggdict','named','cum','transform','shift','valcounts','sizeonly','series_agg'])
    so=rng.choice([None,1,2,3,True]); sm=rng.choice([None,'tasks','disk']); sort=rng.choice([None,True,False]); dropna=rng.choice([True,True,False])
    gkw=dict(sort=sort,dropna=dropna) if sort is not None else dict(dropna=dropna)
    pkw=dict(sort=True if sort is None else sort, dropna=dropna)
    akw={}
    if so is not None: akw['split_out']=so
    if sm is not None: akw['shuffle_method']=sm
    S.n+=1; case=(kind,by,so,sm,sort,dropna,len(pdf),df.npartitions)
    try:
        g=pdf.groupby(by,**pkw); dg=df.groupby(by,**gkw)
        if kind=='agg1':
            fn=rng.choice(['sum','mean','min','max','count','first','last','var','std','prod','nunique','size'])
            cols=['c','d']
            if fn=='size': e=g.size(); f=lambda: dg.size(**akw)
            elif fn=='nunique': e=g['d'].nunique(); f=lambda: dg['d'].nunique(**akw)
            else: e=getattr(g[cols],fn)(); f=lambda: getattr(dg[cols],fn)(**akw)
            case+=(fn,)
        elif kind=='agglist': fns=rng.sample(['sum','mean','min','max','count','var','std','first','last'],2); e=g[['c','d']].agg(fns); f=lambda: dg[['c','d']].agg(fns,**akw); case+=(tuple(fns),)
        elif kind=='aggdict': spec={'c':rng.choice(['sum','mean','max']),'d':rng.sample(['min','count','std'],2)}; e=g.agg(spec); f=lambda: dg.agg(spec,**akw); case+=(str(spec),)
        elif kind=='named': e=g.agg(x=('c','sum'),y=('d','max')); f=lambda: dg.agg(x=('c','sum'),y=('d','max'),**akw)
        elif kind=='cum': fn=rng.choice(['cumsum','cumprod','cumcount']); e=getattr(g['d'],fn)(); f=lambda: getattr(dg['d'],fn)(); case+=(fn,)
        elif kind=='transform': e=g['d'].transform('sum'); f=lambda: dg['d'].transform('sum', meta=('d','f8'))
        elif kind=='shift': e=g['d'].shift(1); f=lambda: dg['d'].shift(1, meta=('d','f8'))
        elif kind=='valcounts': e=g['a'].value_counts(); f=lambda: dg['a'].value_counts(**akw)
        elif kind=='sizeonly': e=g.size(); f=lambda: dg.size(**akw)
        else: fn=rng.choice(['sum','mean','idxmin','idxmax','first']); e=getattr(g['c'],fn)(); f=lambda: getattr(dg['c'],fn)(**({} if fn.startswith('idx') else akw)); case+=(fn,)
    except Exception as ex: S.rej+=1; continue
    try:
        r=f(); r=r.compute()
    except NotImplementedError: S.unsup+=1; continue
    except Exception as ex: S.report('EXC',(kind,type(ex).__name__,str(ex)[:70]),str(ex)[:200],case); continue
    ordered = (sort in (None,True)) and so in (None,1) 
    m=cmp(r,e,sort=not ordered or kind in('cum','transform','shift'))
    if m: S.report('NEQ',(kind,case[-1] if kind in('agg1','cum','series_agg') else '', 'ordered' if ordered else 'unordered', m[:50]),m,case)
S.dump()
