from df_common import *
rng=random.Random(int(sys.argv[1]) if len(sys.argv)>1 else 0); S=Stats()
N=int(sys.argv[2]) if len(sys.argv)>2 else 1200
KINDS=['shuffle','sort_values','set_index','drop_duplicates','merge','concat','repartition','rolling','cum','shift','fill','rowwise','loc']
for it in range(N):
    kind=rng.choice(KINDS)
    idxkind=rng.choice(['range','sorted','dups']) if kind in('rolling','cum','shift','fill','loc','repartition') else None
    pdf=rand_frame(rng,index=idxkind); df=rand_part(rng,pdf)
    S.n+=1; case=(kind,len(pdf),df.npartitions,df.known_divisions); sortcmp=False; extra=None
    try:
        if kind=='shuffle':
            col=rng.choice(['a','b',['a','b']]); sm=rng.choice(['tasks','disk']); mb=rng.choice([None,2,3]); npo=rng.choice([None,1,3,5])
            kw={'shuffle_method':sm}; 
            if npo: kw['npartitions']=npo
            if mb and sm=='tasks': kw['max_branch']=mb
            e=pdf; f=lambda: df.shuffle(col,**kw); sortcmp=True; extra=('colocate',col); case+=(str(col),sm,mb,npo)
        elif kind=='sort_values':
            by=rng.choice(['a','c',['a','c'],['b','d']]); asc=rng.choice([True,False]); nap=rng.choice(['first','last'])
            e=pdf.sort_values(by,ascending=asc,na_position=nap,kind='stable'); f=lambda: df.sort_values(by,ascending=asc,na_position=nap); extra=('sorted',by,asc,nap); case+=(str(by),asc,nap)
        elif kind=='set_index':
            col=rng.choice(['a','c','d','b']); 
            if pdf[col].isna().any(): S.rej+=1; continue
            e=pdf.set_index(col).sort_index(kind='stable'); f=lambda: df.set_index(col); extra=('index-sorted',); case+=(col,)
        elif kind=='drop_duplicates':
            sub=rng.choice([None,['a'],['a','b'],['b']]); keep=rng.choice(['first','last']); so=rng.choice([None,1,2,True])
            e=pdf.drop_duplicates(subset=sub,keep=keep); f=lambda: df.drop_duplicates(subset=sub,keep=keep,**({'split_out':so} if so else {})); sortcmp=True; case+=(str(sub),keep,so)
        elif kind=='merge':
            pdf2=rand_frame(rng,nmax=15,index='range')[['a','b','d']].rename(columns={'d':'z'}); df2=rand_part(rng,pdf2)
            how=rng.choice(['inner','left','right','outer']); on=rng.choice(['a',['a','b'],'b']); bc=rng.choice([None,True,False]); sm=rng.choice([None,'tasks','disk'])
            kw={}; 
            if bc is not None: kw['broadcast']=bc
            if sm: kw['shuffle_method']=sm
            e=pdf.merge(pdf2,how=how,on=on); f=lambda: df.merge(df2,how=how,on=on,**kw); sortcmp=True; case+=(how,str(on),bc,sm)
        elif kind=='concat':
            pdf2=rand_frame(rng,nmax=15); df2=rand_part(rng,pdf2); ax=0; j=rng.choice(['outer','inner'])
            e=pd.concat([pdf,pdf2[['a','c']]],join=j); f=lambda: dd.concat([df,df2[['a','c']]],join=j,interleave_partitions=rng.random()<.5); case+=(j,)
            sortcmp= True
        elif kind=='repartition':
            n=rng.randint(1,7); e=pdf; f=lambda: df.repartition(npartitions=n); extra=('npart',n); case+=(n,)
        elif kind=='rolling':
            if not df.known_divisions and False: pass
            w=rng.randint(1,6); mp=rng.choice([None,1,w]); c=rng.random()<.4; fn=rng.choice(['sum','mean','max','std','count'])
            e=getattr(pdf[['c','d']].rolling(w,min_periods=mp,center=c),fn)(); f=lambda: getattr(df[['c','d']].rolling(w,min_periods=mp,center=c),fn)(); case+=(w,mp,c,fn)
        elif kind=='cum': fn=rng.choice(['cumsum','cumprod','cummax','cummin']); e=getattr(pdf[['a','c','d']],fn)(); f=lambda: getattr(df[['a','c','d']],fn)(); case+=(fn,)
        elif kind=='shift':
            fn=rng.choice(['shift','diff','pct_change']); pr=rng.choice([-3,-1,1,2,5]); e=getattr(pdf[['c','d']],fn)(pr); f=lambda: getattr(df[['c','d']],fn)(pr); case+=(fn,pr)
        elif kind=='fill': fn=rng.choice(['ffill','bfill']); lim=rng.choice([None,1,2]); e=getattr(pdf[['c']],fn)(limit=lim); f=lambda: getattr(df[['c']],fn)(limit=lim); case+=(fn,lim)
        elif kind=='rowwise':
            e=pdf[pdf.a>1].assign(q=lambda x: x.c*2+x.d)[['b','q','e']]; f=lambda: df[df.a>1].assign(q=lambda x: x.c*2+x.d)[['b','q','e']]
        elif kind=='loc':
            if not pdf.index.is_monotonic_increasing or not len(pdf): S.rej+=1; continue
            lo,hi=sorted([rng.randint(int(pdf.index.min())-1,int(pdf.index.max())+1) for _ in range(2)]); e=pdf.loc[lo:hi]; f=lambda: df.loc[lo:hi]; case+=(lo,hi)
    except Exception as ex: S.rej+=1; continue
    try:
        dr=f(); r=dr.compute()
    except NotImplementedError: S.unsup+=1; continue
    except Exception as ex: S.report('EXC',(kind,type(ex).__name__,str(ex)[:70]),str(ex)[:200],case); continue
    if kind in('sort_values',):
        m=cmp(r.reset_index(drop=True),e.reset_index(drop=True))
        if m:
            m2=cmp(r,e,sort=True); m='ORDER-only '+m if not m2 else m
    elif kind=='concat': m=cmp(r.reset_index(drop=True),e.reset_index(drop=True),sort=True)
    else: m=cmp(r,e,sort=sortcmp)
    if m: S.report('NEQ',(kind,m[:60],'empty' if len(pdf)==0 else ''),m,case); continue
    # extra monitors
    if extra and extra[0]=='colocate':
        col=extra[1]; cols=[col] if isinstance(col,str) else col; seen={}
        for i in range(dr.npartitions):
            part=dr.partitions[i].compute()
            for key in set(map(tuple,part[cols].itertuples(index=False))):
                if key in seen and seen[key]!=i: S.report('COLOC',(kind,),'key %s in %d and %d'%(key,seen[key],i),case)
                seen[key]=i
    if extra and extra[0]=='npart' and dr.npartitions!=extra[1]: S.report('NPART',(kind,),'%d vs %d'%(dr.npartitions,extra[1]),case)
    # divisions truthfulness
    if dr.known_divisions:
        dv=dr.divisions
        if len(dv)-1!=dr.npartitions: S.report('DIV',(kind,'len'),str(dv),case)
        for i in range(dr.npartitions):
            part=dr.partitions[i].compute()
            if len(part):
                lo,hi=part.index.min(),part.index.max()
                if lo<dv[i] or hi>dv[i+1] or (hi==dv[i+1] and i<dr.npartitions-1): S.report('DIV',(kind,'bounds'),'part %d [%s,%s] divs %s'%(i,lo,hi,dv),case); break
S.dump()
