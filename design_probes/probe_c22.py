from arr_common import *
import sys
rng=random.Random(int(sys.argv[1]) if len(sys.argv)>1 else 0); S=Stats()
RED=['sum','prod','min','max','any','all','mean','var','std','argmin','argmax','nansum','nanprod','nanmin','nanmax','nanmean','nanvar','nanstd','nanargmin','nanargmax','cumsum','cumprod','nancumsum','nancumprod','median','topk','argtopk','moment']
N=int(sys.argv[2]) if len(sys.argv)>2 else 3000
def axes_of(rng, nd):
    if nd==0: return rng.choice([None,()])
    k=rng.choice(['none','int','tuple'])
    if k=='none': return None
    if k=='int': return rng.randrange(-nd,nd)
    return tuple(sorted(rng.sample(range(nd), rng.randint(1,nd))))
for it in range(N):
    shape=rand_shape(rng,maxnd=3,minnd=0); dt=rng.choice(['bool','int8','int64','float32','float64','complex128'])
    x=rand_data(rng,shape,dt); ch=rand_chunks(rng,shape); dx=da.from_array(x,chunks=ch)
    op=rng.choice(RED); ax=axes_of(rng,len(shape)); kd=rng.random()<.3; se=rng.choice([None,None,2,3])
    kw={}; S.n+=1
    try:
      with np.errstate(all='ignore'):
        if op in ('cumsum','cumprod','nancumsum','nancumprod'):
            ax=None if ax is None or isinstance(ax,tuple) else ax; meth=rng.choice(['sequential','blelloch'])
            e=getattr(np,op)(x,axis=ax); f=lambda: getattr(da,op)(dx,axis=ax,method=meth); kw={'method':meth}
        elif op in ('argmin','argmax','nanargmin','nanargmax'):
            ax=None if isinstance(ax,tuple) or ax==() else ax
            e=getattr(np,op)(x,axis=ax,keepdims=kd); f=lambda: getattr(da,op)(dx,axis=ax,keepdims=kd,split_every=se)
        elif op=='median':
            if ax is None or ax==(): ax=tuple(range(len(shape))) 
            e=np.median(x,axis=ax,keepdims=kd); f=lambda: da.median(dx,axis=ax,keepdims=kd)
        elif op in ('topk','argtopk'):
            if not shape: S.rej+=1; continue
            a=rng.randrange(-len(shape),len(shape)); k=rng.choice([-3,-2,-1,1,2,3]); ax=a; kw={'k':k}
            if dt=='complex128' or dt.startswith('float'): S.rej+=1; continue
            srt=np.sort(x,axis=a); 
            e=np.take(srt,range(srt.shape[a]-1,max(srt.shape[a]-1-k,-1),-1),axis=a) if k>0 else np.take(srt,range(0,min(-k,srt.shape[a])),axis=a)
            if op=='argtopk': 
                f=lambda: np.take_along_axis(x, da.argtopk(dx,k,axis=a,split_every=se).compute(), axis=a)
            else: f=lambda: da.topk(dx,k,axis=a,split_every=se)
        elif op=='moment':
            order=rng.choice([1,2,3,4]); e=((x-x.mean(axis=ax,keepdims=True))**order).mean(axis=ax,keepdims=kd); f=lambda: da.moment(dx,order,axis=ax,keepdims=kd,split_every=se); kw={'order':order}
        elif op in ('var','std','nanvar','nanstd'):
            ddof=rng.choice([0,1]); e=getattr(np,op)(x,axis=ax,keepdims=kd,ddof=ddof); f=lambda: getattr(da,op)(dx,axis=ax,keepdims=kd,ddof=ddof,split_every=se); kw={'ddof':ddof}
        else:
            e=getattr(np,op)(x,axis=ax,keepdims=kd); f=lambda: getattr(da,op)(dx,axis=ax,keepdims=kd,split_every=se)
    except Exception as ex: S.rej+=1; continue
    case=(op,shape,dt,ch,ax,kd,se,kw)
    try:
        with np.errstate(all='ignore'):
            r=f(); rv=r.compute() if hasattr(r,'compute') else r
    except NotImplementedError: S.unsup+=1; continue
    except Exception as ex: S.report('EXC',(op,type(ex).__name__,str(ex)[:50]),str(ex)[:150],case); continue
    m=eq(rv,e,approx=True)
    if m: S.report('NEQ',(op,m.split()[0], 'empty' if 0 in shape else 'nonempty'),m,case)
S.dump(2)
