import random, sys, warnings, operator, collections, itertools
import dask, dask.bag as db
from dask.bag import random as dbr
dask.config.set(scheduler='sync'); warnings.simplefilter('ignore')
rng=random.Random(0); bad={}; n=0
def rep(k,v): bad.setdefault(k,[]).append(v)
def mk(rng):
    L=[rng.randint(0,6) for _ in range(rng.randint(0,25))]
    k=rng.choice(['np','ps','delayed'])
    if k=='np' or not L: return L, db.from_sequence(L,npartitions=rng.randint(1,6))
    if k=='ps': return L, db.from_sequence(L,partition_size=rng.randint(1,6))
    cuts=sorted(rng.randint(0,len(L)) for _ in range(rng.randint(0,4))); b=[0]+cuts+[len(L)]
    parts=[L[a:c] for a,c in zip(b,b[1:])]
    return L, db.from_delayed([dask.delayed(p) for p in parts])
ms=lambda x: collections.Counter(map(repr,x))
for it in range(2500):
    L,b=mk(rng); op=rng.choice(['map','filter','remove','pluck','flatten','distinct','frequencies','topk','fold','reduction','foldby','groupby','join','product','accumulate','take','repartition','zip','concat','sum','mean','var','std','count','min','max','any','all','starmap','map_partitions','sample','choices','random_sample'])
    n+=1; se=rng.choice([None,2,3]); ordered=True
    try:
        if op=='map': e=[x*2 for x in L]; f=lambda: b.map(lambda x:x*2)
        elif op=='filter': e=[x for x in L if x%2]; f=lambda: b.filter(lambda x:x%2)
        elif op=='remove': e=[x for x in L if not x%2]; f=lambda: b.remove(lambda x:x%2)
        elif op=='pluck': e=[(x,x+1)[1] for x in L]; f=lambda: b.map(lambda x:(x,x+1)).pluck(1)
        elif op=='flatten': e=[y for x in L for y in [x]*2]; f=lambda: b.map(lambda x:[x]*2).flatten()
        elif op=='distinct': e=list(set(L)); f=lambda: b.distinct(); ordered=False
        elif op=='frequencies': e=list(collections.Counter(L).items()); f=lambda: b.frequencies(split_every=se); ordered=False
        elif op=='topk': k=rng.randint(1,4); e=sorted(L,reverse=True)[:k]; f=lambda: b.topk(k,split_every=se)
        elif op=='fold': e=sum(L); f=lambda: b.fold(operator.add,initial=0,split_every=se)
        elif op=='reduction': e=sum(L); f=lambda: b.reduction(sum,sum,split_every=se)
        elif op=='foldby': e=list({k:sum(v) for k,v in itertools.groupby(sorted(L,key=lambda x:x%3),key=lambda x:x%3)}.items()); f=lambda: b.foldby(lambda x:x%3,operator.add,0,operator.add,0,split_every=se); ordered=False
        elif op=='groupby':
            meth=rng.choice(['tasks','disk']); npo=rng.choice([None,1,3]); kw={'method':meth}
            if npo: kw['npartitions']=npo
            if meth=='tasks' and rng.random()<.5: kw['max_branch']=2
            e=[(k,sorted(v)) for k,v in ((k,list(g)) for k,g in itertools.groupby(sorted(L,key=lambda x:x%3),key=lambda x:x%3))]; f=lambda: b.groupby(lambda x:x%3,**kw).map(lambda kv:(kv[0],sorted(kv[1]))); ordered=False; op=op+str(sorted(kw.items()))
        elif op=='join': other=[1,2,2,9]; e=[(o,x) for x in L for o in other if o==x]; f=lambda: b.join(other,lambda x:x); ordered=False
        elif op=='product': L2,b2=mk(rng); e=[(x,y) for x in L for y in L2]; f=lambda: b.product(b2); ordered=False
        elif op=='accumulate': e=list(itertools.accumulate(L)); f=lambda: b.accumulate(operator.add)
        elif op=='take': k=rng.randint(0,5); e=tuple(L[:k]); f=lambda: b.take(k,npartitions=-1,warn=False)
        elif op=='repartition':
            if rng.random()<.6: nn=rng.randint(1,7); f=lambda: b.repartition(npartitions=nn)
            else: f=lambda: b.repartition(partition_size=rng.choice([64,200,1000]))
            e=L
        elif op=='zip':
            bb=db.from_sequence(L,npartitions=3); e=list(zip(L,[x+1 for x in L])); f=lambda: db.zip(bb,bb.map(lambda x:x+1))
        elif op=='concat': L2,b2=mk(rng); e=L+L2; f=lambda: db.concat([b,b2])
        elif op in('sum','count','min','max','any','all'): e={'sum':sum,'count':len,'min':min,'max':max,'any':any,'all':all}[op](L); f=lambda: getattr(b,op)(split_every=se)
        elif op=='mean': e=sum(L)/len(L); f=lambda: b.mean()
        elif op in('var','std'):
            import statistics; e=statistics.pvariance(L) if op=='var' else statistics.pstdev(L); f=lambda: getattr(b,op)()
        elif op=='starmap': e=[x+y for x,y in zip(L,L)]; f=lambda: b.map(lambda x:(x,x)).starmap(operator.add)
        elif op=='map_partitions': e=[x+1 for x in L]; f=lambda: b.map_partitions(lambda p:[x+1 for x in p])
        elif op in('sample','choices'):
            k=rng.randint(0,len(L)+3); r=getattr(dbr,op)(b,k,split_every=se).compute()
            if op=='sample':
                ok= not (ms(r)-ms(L)) and len(r)==min(k,len(L))
            else: ok= len(r)==k and all(x in L for x in r)
            if not ok: rep((op,'BAD'),(L,k,r,b.npartitions))
            continue
        elif op=='random_sample':
            p=rng.random(); s=rng.randint(0,99); r1=b.random_sample(p,s).compute(); r2=b.random_sample(p,s).compute(scheduler='threads')
            it_=iter(L); sub=all(any(x==y for y in it_) for x in r1)
            if r1!=r2 or not sub: rep((op,'BAD'),(L,p,s,r1,r2))
            continue
    except Exception as ex: continue
    try:
        r=f(); r=r.compute() if hasattr(r,'compute') else r
    except Exception as ex: rep((op,'EXC',type(ex).__name__,str(ex)[:60]),(L,b.npartitions)); continue
    if isinstance(e,(list,tuple)) and not isinstance(r,(int,float)):
        if (list(r)!=list(e)) if ordered else (ms(r)!=ms(e)): rep((op,'NEQ'),(L,b.npartitions,r,e))
    else:
        if not (abs(r-e)<1e-9 if isinstance(e,float) else r==e): rep((op,'NEQ'),(L,b.npartitions,r,e))
print('cases',n)
for k,v in sorted(bad.items(),key=lambda kv:-len(kv[1])): print(k,len(v),str(v[0])[:250])
