import random, sys
from concurrent.futures import Future
from queue import Queue
import dask.local as L
from dask.local import get_async

class Ctl:
    def __init__(self, rng): self.pending=[]; self.rng=rng; self.log=[]; self.choices=[]
    def submit(self, fn, *a, **k):
        f=Future(); self.pending.append((f,fn,a,k)); self.log.append(('submit',[x[0] for x in a[0]])); return f
    def step(self):
        if not self.pending: raise RuntimeError('HANG: main thread would block with nothing in flight')
        i=self.rng.randrange(len(self.pending)); self.choices.append((i,len(self.pending)))
        f,fn,a,k=self.pending.pop(i)
        try: f.set_result(fn(*a,**k))
        except BaseException as e: f.set_exception(e)
ctl=None
class MQ(Queue):
    def get(self, *a, **k):
        if self.empty(): ctl.step()
        return super().get(*a, **k)
L.Queue = MQ
inc=lambda x:x+1; add=lambda x,y:x+y
dsk={'a':1,'b':(inc,'a'),'c':(inc,'a'),'d':(add,'b','c'),'e':(inc,'d'),'f':(add,'b','e'),'g':(inc,'c')}
seen=set()
for s in range(200):
    ctl=Ctl(random.Random(s))
    ev=[]
    cb=(None,None,lambda k,d,st: ev.append(('pre',k,frozenset(st['cache']))),lambda k,r,d,st,w: ev.append(('post',k,frozenset(st['cache']))),lambda d,st,failed: ev.append(('fin',failed,frozenset(st['cache']))))
    r=get_async(ctl.submit, 3, dsk, ['f','g'], callbacks=[cb], chunksize=1)
    assert r==(7,3), r
    seen.add(tuple(e[1] for e in ev if e[0]=='post'))
print(len(seen), 'distinct completion orders', sorted(seen)[:3], ev[-1])
