import numpy as np, dask, dask.array as da, dask.bag as db, threading, time
from dask.graph_manipulation import bind, clone, wait_on, checkpoint
from dask.core import flatten
# (a) bind ordering through callbacks
x = da.from_array(np.arange(8), chunks=2); p = (x*2).rechunk(4); c = x+1
c2 = bind(c, p)
log=[]
cb=(None,None,lambda k,d,s: log.append(('pre',k)),lambda k,r,d,s,w: log.append(('post',k)),None)
from dask.callbacks import Callback
with dask.callbacks.add_callbacks(cb): r=c2.compute(scheduler='sync', optimize_graph=False)
pk=set(flatten(p.__dask_keys__())); ck=set(flatten(c2.__dask_keys__()))
last_parent=max(i for i,e in enumerate(log) if e[0]=='post' and e[1] in pk)
first_child=min(i for i,e in enumerate(log) if e[0]=='pre' and e[1] in ck)
print('bind ok', (r==np.arange(8)+1).all(), last_parent<first_child, len(log), [e for e in log if e[0]=='pre'][:3])
print('clone keys disjoint', not (set(flatten(clone(c).__dask_keys__())) & set(flatten(c.__dask_keys__()))))
# (b) store with monitored target
class T:
    def __init__(s,shape): s.a=np.full(shape,-1); s.ev=[]; s.active=0; s.maxactive=0; s.l=threading.Lock()
    def __setitem__(s,k,v):
        with s.l: s.active+=1; s.maxactive=max(s.maxactive,s.active)
        time.sleep(0.002); s.a[k]=v; s.ev.append((k,threading.get_ident()))
        with s.l: s.active-=1
    shape=property(lambda s:s.a.shape); dtype=property(lambda s:s.a.dtype)
src=da.from_array(np.arange(24).reshape(4,6),chunks=(1,2))
for lock in (True,False):
    t=T((6,8)); da.store(src,t,regions=(slice(1,5),slice(2,8)),lock=lock,scheduler='threads',num_workers=4)
    print('store lock',lock,'maxactive',t.maxactive,'writes',len(t.ev),(t.a[1:5,2:8]==np.arange(24).reshape(4,6)).all(),(t.a[0]==-1).all())
# (e) map_blocks call counts
calls=[]
def f(b, block_info=None, block_id=None):
    calls.append((block_id, block_info[0]['chunk-location'], block_info[0]['array-location'], b.shape)); return b+1
y=da.map_blocks(f, src, meta=np.empty((0,0),dtype=src.dtype)); y.compute(scheduler='sync'); print('map_blocks calls', len(calls), 'blocks', np.prod(src.numblocks), calls[:2])
calls.clear(); y=da.map_blocks(f, src, dtype=src.dtype); n0=len(calls); y.compute(scheduler='sync'); print('with dtype: calls at build',n0,'total',len(calls))
calls.clear(); y=da.map_blocks(f, src); n0=len(calls); y.compute(scheduler='sync'); print('no meta: calls at build',n0,'total',len(calls), calls[:1])
