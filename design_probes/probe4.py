import numpy as np, dask, dask.array as da, itertools, random
dask.config.set(scheduler='sync')
bad=0
rng = random.Random(1)
# arange fractional
for _ in range(3000):
    start = rng.choice([0, 1, -3, 0.5, 2.25]); step = rng.choice([0.1,0.3,0.7,1,2,-0.1,-0.3,0.25,3,1.1])
    n = rng.randrange(0,30); stop = start + step*n + rng.choice([0, step/2, -step/2, 1e-9])
    ch = rng.randrange(1,7)
    try:
        e = np.arange(start, stop, step)
        x = da.arange(start, stop, step, chunks=ch)
        r = x.compute()
        if r.shape != e.shape or not np.allclose(r, e) or r.dtype != e.dtype or sum(x.chunks[0]) != len(e):
            bad+=1
            if bad<4: print('ARANGE', start, stop, step, ch, r.shape, e.shape, x.chunks)
    except Exception as ex:
        bad+=1
        if bad<4: print('ARANGE EXC', start, stop, step, ch, type(ex).__name__, ex)
print('arange bad', bad)
bad=0
for _ in range(2000):
    n = rng.randrange(1,40); ch = rng.randrange(1,n+1)
    a = np.array([rng.choice([0,1,2,5,5,7.5,-1]) for _ in range(n)], dtype=float)
    q = sorted(set([0,100]+[rng.uniform(0,100) for _ in range(rng.randrange(0,5))]))
    x = da.from_array(a, chunks=ch)
    for method in ['linear','lower','higher','midpoint','nearest']:
        r = da.percentile(x, q, method=method, internal_method='dask').compute()
        if (np.diff(r)<0).any() or r.min()<a.min() or r.max()>a.max() or not np.isclose(r[0],a.min()) or not np.isclose(r[-1],a.max()):
            bad+=1
            if bad<4: print('PCT', a, q, ch, method, r)
print('pct bad', bad)
