import dask, dask.bag as db
from dask.bag import random as dbr
from dask.callbacks import Callback
dask.config.set(scheduler='sync')
b = db.from_sequence([1,2,2,3], npartitions=2)
for k in [0,2,4,6]:
    try: print('sample', k, dbr.sample(b,k).compute())
    except Exception as e: print('sample', k, 'EXC', type(e).__name__, e)
be = db.from_sequence([1,2,3,4], npartitions=2).filter(lambda x: x>2)
for f in (dbr.sample, dbr.choices):
    try: print(f.__name__, 'emptypart', f(be,1).compute())
    except Exception as e: print(f.__name__, 'emptypart EXC', type(e).__name__, e)
# callbacks
log=[]
cb = Callback(pretask=lambda k,d,s: log.append(k))
with cb:
    with cb:
        pass
    print('active after inner exit', len(Callback.active))
print('active after outer exit', len(Callback.active))
cb.register()
with cb: pass
print('registered survives?', len(Callback.active))
Callback.active.clear()
# text
import tempfile, os
d = tempfile.mkdtemp(); p = os.path.join(d,'f.txt'); open(p,'w').write('a|b|c|')
print(db.read_text(p, linedelimiter='|').compute(), db.read_text(p, linedelimiter='|', blocksize=2).compute())
