from arr_common import *
import operator, sys
rng=random.Random(int(sys.argv[1]) if len(sys.argv)>1 else 0); S=Stats()
DT=['bool','int8','int64','uint8','float32','float64','complex128']
BIN=[operator.add,operator.sub,operator.mul,operator.truediv,operator.floordiv,operator.mod,operator.pow,operator.and_,operator.or_,operator.xor,operator.lt,operator.le,operator.eq,operator.ne,operator.gt,operator.ge,np.maximum,np.minimum,np.hypot,np.arctan2,np.logical_and,np.fmax,np.copysign,np.logaddexp,np.where]
UN=[operator.neg,operator.abs,operator.invert,np.sqrt,np.exp,np.sin,np.isnan,np.isfinite,np.sign,np.floor,np.conj,np.real,np.imag,np.logical_not,np.square,np.cbrt,np.rint,np.signbit,np.angle]
def bshape(rng, shape):
    s=list(shape)
    for i in range(len(s)):
        if rng.random()<.3: s[i]=1
    k=rng.randint(0,len(s)); return tuple(s[k:])
for it in range(int(sys.argv[2]) if len(sys.argv)>2 else 3000):
    shape=rand_shape(rng); d1=rng.choice(DT); d2=rng.choice(DT)
    x=rand_data(rng,shape,d1); s2=bshape(rng,shape); y=rand_data(rng,s2,d2)
    dx=da.from_array(x,chunks=rand_chunks(rng,shape)); 
    ykind=rng.choice(['dask','numpy','scalar'])
    if ykind=='dask': dy=da.from_array(y,chunks=rand_chunks(rng,s2))
    elif ykind=='numpy': dy=y
    else: y=dy=rng.choice([2,-1,0.5,True,np.float32(1.5),np.int8(3),1j]); 
    kind=rng.choice(['bin','rbin','un','astype','clip'])
    S.n+=1
    try:
        with np.errstate(all='ignore'):
            if kind=='bin':
                op=rng.choice(BIN)
                if op is np.where: e=np.where(x>0,x,y) if True else None; f=lambda:da.where(dx>0,dx,dy)
                else: e=op(x,y); f=lambda:(getattr(da,op.__name__)(dx,dy) if isinstance(op,np.ufunc) else op(dx,dy))
            elif kind=='rbin':
                op=rng.choice(BIN[:16]); e=op(y,x); f=lambda:op(dy,dx)
                if ykind=='scalar' or ykind=='numpy': pass
            elif kind=='un':
                op=rng.choice(UN); e=op(x); f=lambda:(getattr(da,op.__name__)(dx) if hasattr(da,getattr(op,'__name__','')) and not op in (operator.neg,operator.abs,operator.invert) else op(dx))
            elif kind=='astype':
                t=rng.choice(DT); op=('astype',t); e=x.astype(t); f=lambda:dx.astype(t)
            else:
                lo,hi=sorted([rng.randint(-3,3),rng.randint(-3,3)]); op=('clip',lo,hi); e=np.clip(x,lo,hi); f=lambda:da.clip(dx,lo,hi)
    except Exception as ex:
        S.rej+=1; continue
    case=(kind,getattr(op,'__name__',op),shape,d1,s2,d2,ykind,getattr(dx,'chunks',None))
    try:
        with np.errstate(all='ignore'):
            r=f(); lazy=(r.shape,r.dtype); rv=r.compute()
    except NotImplementedError: S.unsup+=1; continue
    except Exception as ex:
        S.report('EXC',(kind,getattr(op,'__name__',str(op)),type(ex).__name__),str(ex)[:150],case); continue
    m=eq(rv,e)
    if m: S.report('NEQ',(kind,getattr(op,'__name__',str(op)),m.split()[0]),m,case)
    elif lazy!=(np.shape(e),np.asarray(e).dtype): S.report('META',(kind,getattr(op,'__name__',str(op))),str(lazy),case)
S.dump()
