from df_common import *
import tempfile, os, io
rng=random.Random(0); S=Stats(); d=tempfile.mkdtemp()
for it in range(400):
    n=rng.randint(0,25); r=np.random.default_rng(rng.randrange(2**32))
    words=['a','b,c','d"e','  f ','','x y','naïve']
    pdf=pd.DataFrame({'i':r.integers(-5,100,n),'f':np.round(r.normal(size=n),3),'s':[rng.choice(words) for _ in range(n)],'t':pd.date_range('2020-01-01',periods=n,freq='37min')})
    if n: pdf.loc[pdf.index[r.random(n)<.2],'f']=np.nan
    p=os.path.join(d,'f%d.csv'%it); pdf.to_csv(p,index=False)
    bs=rng.choice([None,5,17,40,100,1000]); S.n+=1; case=(n,bs)
    try: e=pd.read_csv(p,parse_dates=['t'])
    except Exception: S.rej+=1; continue
    try: r_=dd.read_csv(p,blocksize=bs,parse_dates=['t']).compute().reset_index(drop=True)
    except Exception as ex: S.report('EXC',('read',type(ex).__name__,str(ex)[:80]),str(ex)[:200],case); continue
    m=cmp(r_,e)
    if m: S.report('NEQ',('read',m[:60]),m,case)
    # round trip
    df=rand_part(rng,pdf); out=os.path.join(d,'o%d'%it); sf=rng.random()<.3
    try:
        if sf: df.to_csv(out+'.csv',single_file=True,index=False); back=dd.read_csv(out+'.csv',parse_dates=['t']).compute()
        else: df.to_csv(out+'/p-*.csv',index=False); back=dd.read_csv(out+'/p-*.csv',parse_dates=['t']).compute()
    except Exception as ex: S.report('EXC',('roundtrip',sf,type(ex).__name__,str(ex)[:80]),str(ex)[:200],case+(df.npartitions,)); continue
    m=cmp(back.reset_index(drop=True),e)
    if m: S.report('NEQ',('roundtrip',sf,m[:60]),m,case+(df.npartitions,))
S.dump()
