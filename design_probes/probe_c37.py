from df_common import *
rng=random.Random(int(sys.argv[1]) if len(sys.argv)>1 else 0); S=Stats()
OPS=['sum','prod','min','max','count','mean','var','std','sem','any','all','idxmin','idxmax','nunique','value_counts','mode','nlargest','nsmallest','len','cov','corr','describe','median_approx']
N=int(sys.argv[2]) if len(sys.argv)>2 else 1500
for it in range(N):
    pdf=rand_frame(rng); df=rand_part(rng,pdf); op=rng.choice(OPS[:-1])
    num=pdf[['a','c','d']]; dnum=df[['a','c','d']]
    skipna=rng.random()<.7; se=rng.choice([None,2,3,False]); axis=rng.choice([0,0,1])
    S.n+=1; case=(op,len(pdf),df.npartitions,skipna,se,axis,pdf.index[:5].tolist())
    try:
        if op in ('sum','prod','min','max','mean','var','std','sem','any','all'):
            target=rng.choice(['frame','series'])
            if target=='frame':
                e=getattr(num,op)(axis=axis,skipna=skipna); f=lambda: getattr(dnum,op)(axis=axis,skipna=skipna,**({} if axis==1 else {'split_every':se}))
            else:
                col=rng.choice(['a','c','d','e']); e=getattr(pdf[col],op)(skipna=skipna); f=lambda: getattr(df[col],op)(skipna=skipna,split_every=se)
            case+=(target,)
        elif op=='count': e=pdf.count(axis=axis); f=lambda: df.count(axis=axis)
        elif op in ('idxmin','idxmax'):
            if not pdf.index.is_unique: S.rej+=1; continue
            e=getattr(num,op)(skipna=skipna); f=lambda: getattr(dnum,op)(skipna=skipna,split_every=se)
        elif op=='nunique': col=rng.choice(['a','b','c']); e=pdf[col].nunique(); f=lambda: df[col].nunique()
        elif op=='value_counts': col=rng.choice(['a','b','d']); e=pdf[col].value_counts(); f=lambda: df[col].value_counts(split_every=se)
        elif op=='mode': col=rng.choice(['a','b','d']); e=pdf[col].mode(); f=lambda: df[col].mode()
        elif op in ('nlargest','nsmallest'): k=rng.randint(1,4); e=getattr(pdf,op)(k,'c'); f=lambda: getattr(df,op)(k,'c')
        elif op=='len': e=len(pdf); f=lambda: len(df)
        elif op in ('cov','corr'): e=getattr(num,op)(); f=lambda: getattr(dnum,op)(split_every=se)
        elif op=='describe': e=num.describe().loc[['count','mean','std','min','max']]; f=lambda: dnum.describe().compute().loc[['count','mean','std','min','max']]
    except Exception as ex: S.rej+=1; continue
    try:
        r=f(); r=r.compute() if hasattr(r,'compute') else r
    except NotImplementedError: S.unsup+=1; continue
    except Exception as ex:
        S.report('EXC',(op,type(ex).__name__,str(ex)[:60]),str(ex)[:200],case); continue
    m=cmp(r,e,sort=op in ('value_counts',))
    if m: S.report('NEQ',(op,m[:40], 'empty' if len(pdf)==0 else 'n>0'),m,case)
S.dump()
