import numpy as np, pandas as pd, pickle, itertools
from dask.tokenize import tokenize
a=np.array([[1,2],[3,4]]); b=np.asfortranarray(np.array([[1,3],[2,4]]))
print('C/F same bytes collide:', tokenize(a)==tokenize(b), (a==b).all())
a=np.arange(6).reshape(2,3); b=np.arange(6).reshape(3,2)
print('reshape collide:', tokenize(a)==tokenize(b))
a=np.array(['a-b','c'],dtype=object); b=np.array(['a','b-c'],dtype=object)
print('object join collide:', tokenize(a)==tokenize(b))
df1=pd.DataFrame({'a':[1],'b':[2.0],'c':[3]}); df2=pd.DataFrame({'a':[1],'b':[3],'c':[2.0]})
print('df block layout collide:', tokenize(df1)==tokenize(df2), df1.equals(df2))
x=np.arange(12).reshape(3,4).T[:, ::2]; y=pickle.loads(pickle.dumps(x))
print('pickle roundtrip noncontig same token:', tokenize(x)==tokenize(y), (x==y).all())
mm=np.arange(4); print('scalar 0-d:', tokenize(np.array(1))==tokenize(np.array(1.0)))
print('1 vs True', tokenize(1)==tokenize(True), '0.0 vs -0.0', tokenize(0.0)==tokenize(-0.0))
print('dict key str collide', tokenize({1:'a'})==tokenize({'1':'a'}))
s1=pd.Series([1,2],index=['a','b']); s2=pd.Series([1,2],index=['a','b'],name=None)
print(tokenize(pd.Index(['a-b','c']))==tokenize(pd.Index(['a','b-c'])))
print('set mixed', tokenize({1,'1'}), )
# getcycle
from dask.core import getcycle, toposort, isdag
inc=lambda x:x
d={'a':(inc,'b'),'b':(inc,'c'),'c':(inc,'a'),'d':(inc,'a')}
print(getcycle(d,'d'), getcycle(d,None), isdag(d,'d'))
