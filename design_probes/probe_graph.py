import random, itertools, pickle, sys, warnings
import dask
from dask.core import get as core_get, toposort, getcycle, isdag, get_dependencies
from dask.optimization import cull, inline, inline_functions, fuse, fuse_linear
from dask._task_spec import convert_legacy_graph, fuse_linear_task_spec, resolve_aliases, Task, DependenciesMapping
from dask.core import reverse_dict
warnings.simplefilter('ignore')
def add(*a): return ('add',)+a
def inc(a): return ('inc',a)
def lst(*a): return ['lst',*a]
FUN=[add,inc]
rng=random.Random(0)
bad={}
def rep(k,v): bad.setdefault(k,[]).append(v)
def make(n, edges, rng):
    dsk={}; exp={}
    for i in range(n):
        deps=['k%d'%j for j in range(i) if (j,i) in edges]; k='k%d'%i
        kind=rng.choice(['task','task','task','data','alias','listnode','nested','dictarg'])
        if not deps: dsk[k]=('lit',i) if kind!='task' else (inc,i); exp[k]=('lit',i) if kind!='task' else ('inc',i)
        elif kind=='alias' and len(deps)==1: dsk[k]=deps[0]; exp[k]=exp[deps[0]]
        elif kind=='listnode': dsk[k]=list(deps); exp[k]=[exp[d] for d in deps]
        elif kind=='nested': dsk[k]=(add,[deps[0],(inc,deps[-1])],i); exp[k]=('add',[exp[deps[0]],('inc',exp[deps[-1]])],i)
        elif kind=='dictarg': dsk[k]=(add,{'a':deps[0],'b':[deps[-1],1]}); exp[k]=('add',{'a':exp[deps[0]],'b':[exp[deps[-1]],1]})
        else: dsk[k]=(add,)+tuple(deps); exp[k]=('add',)+tuple(exp[d] for d in deps)
        # ensure all deps referenced
        if kind in('nested','dictarg') and len(deps)>2: dsk[k]=(add,dsk[k],*deps[1:-1]); exp[k]=('add',exp[k],*[exp[d] for d in deps[1:-1]])
    return dsk,exp
n=5; pairs=[(j,i) for i in range(n) for j in range(i)]; cnt=0
for mask in range(0,2**len(pairs)):
    edges={p for b,p in enumerate(pairs) if mask>>b&1}
    dsk,exp=make(n,edges,rng); cnt+=1
    keys_all=sorted(dsk)
    for r in (1,2):
        for keys in itertools.combinations(keys_all,r):
            keys=list(keys); want=tuple(exp[k] for k in keys)
            def chk(tag,g):
                try: got=core_get(g,keys)
                except Exception as e: rep((tag,'EXC',type(e).__name__,str(e)[:60]),(mask,keys)); return
                if got!=want: rep((tag,'NEQ'),(mask,keys,got,want))
            chk('plain',dsk)
            try:
                c,deps=cull(dsk,keys); chk('cull',c)
                if {k:set(v) for k,v in deps.items()}!={k:get_dependencies(c,k) for k in c}: rep(('cull','deps'),(mask,keys))
                chk('inline',inline(dsk)); chk('inline_keys',inline(dsk,keys=[k for k in dsk if k not in keys][:2],inline_constants=False))
                chk('inline_functions',inline_functions(dsk,keys,[inc]))
                for aw in (1,2,3,float('inf')):
                    for rk in (True,False):
                        f,fd=fuse(c,keys,ave_width=aw,rename_keys=rk)
                        chk('fuse aw=%s rk=%s'%(aw,rk),f)
                        if {k:set(v) for k,v in fd.items()}!={k:get_dependencies(f,k) for k in f}: rep(('fuse','deps',aw,rk),(mask,keys))
                fl,fld=fuse_linear(c,keys); chk('fuse_linear',fl)
                t=convert_legacy_graph(c); chk('taskspec',t)
                chk('fuse_linear_task_spec',fuse_linear_task_spec(t,keys))
                dm=DependenciesMapping(t); chk('resolve_aliases',resolve_aliases(t,set(keys),reverse_dict(dm)))
                for k,node in t.items():
                    n2=pickle.loads(pickle.dumps(node))
                    if n2.dependencies!=node.dependencies or n2.key!=node.key: rep(('pickle','deps'),(mask,k))
            except Exception as e:
                import traceback
                rep(('OPT-EXC',type(e).__name__,str(e)[:80],traceback.extract_tb(e.__traceback__)[-1].name),(mask,keys))
    # toposort
    ts=toposort(dsk); pos={k:i for i,k in enumerate(ts)}
    if sorted(ts)!=keys_all or any(pos[d]>pos[k] for k in dsk for d in get_dependencies(dsk,k)): rep(('toposort',),(mask,))
print('graphs',cnt)
for k,v in sorted(bad.items(),key=lambda kv:-len(kv[1])): print(k,len(v),v[0])
