import time, dask
from dask.multiprocessing import get
from concurrent.futures import ProcessPoolExecutor
import multiprocessing as mp
def inc(x): return x+1
def add(x,y): return x+y
def boom(x): raise ValueError("boom-%s" % x)
if __name__ == '__main__':
    dsk={'a':1,'b':(inc,'a'),'c':(inc,'a'),'d':(add,'b','c'),'e':(boom,'d'),'f':(inc,'e')}
    t=time.time(); print(get(dsk,'d',num_workers=2), time.time()-t)
    pool = ProcessPoolExecutor(4, mp_context=mp.get_context('spawn'))
    t=time.time(); print(get(dsk,['d','b'],pool=pool), time.time()-t)
    t=time.time()
    for i in range(20): get(dsk,['d','b'],pool=pool, chunksize=1, optimize_graph=False)
    print('20 gets', time.time()-t)
    try: get(dsk,'f',pool=pool)
    except Exception as e: print(type(e), type(e).__mro__[:4], str(e)[:60])
    pool.shutdown()
