from arr_common import *
import sys
rng=random.Random(int(sys.argv[1]) if len(sys.argv)>1 else 0); S=Stats()
N=int(sys.argv[2]) if len(sys.argv)>2 else 3000
OPS=['reshape','transpose','moveaxis','swapaxes','squeeze','expand_dims','concatenate','stack','block','broadcast_to','flip','rot90','take','repeat','tile','pad','tril','triu','diff','roll','arange','linspace','eye','diag','diagonal','indices','tri','full_like','unique','bincount','histogram','digitize','searchsorted','isin','nonzero','argwhere','count_nonzero','ravel_multi_index','unravel_index','coarsen','compress','flatnonzero','meshgrid']
def factor_shapes(n):
    out=[]
    for a in range(0,n+1):
        if a and n%a==0:
            out.append((a,n//a)); 
            for b in range(1,n//a+1):
                if (n//a)%b==0: out.append((a,b,n//a//b))
    out.append((n,)); out.append((-1,)); 
    return out
for it in range(N):
    op=rng.choice(OPS); shape=rand_shape(rng,maxnd=3,minnd=1,maxlen=5); shape=tuple(max(1,s) for s in shape) if rng.random()<.7 else shape
    x=rand_data(rng,shape,rng.choice(['int64','float64'])); ch=rand_chunks(rng,shape); dx=da.from_array(x,chunks=ch); nd=len(shape)
    S.n+=1; kw=None
    try:
      with np.errstate(all='ignore'):
        if op=='reshape':
            tgt=rng.choice(factor_shapes(x.size)) if x.size else (0,); 
            if rng.random()<.3 and len(tgt)>1: tgt=tuple(-1 if i==0 else t for i,t in enumerate(tgt))
            mc=rng.random()<.5; e=x.reshape(tgt); f=lambda: dx.reshape(tgt,merge_chunks=mc); kw=(tgt,mc)
        elif op=='transpose': ax=tuple(rng.sample(range(nd),nd)); e=x.transpose(ax); f=lambda: dx.transpose(ax); kw=ax
        elif op=='moveaxis': a,b=rng.randrange(-nd,nd),rng.randrange(-nd,nd); e=np.moveaxis(x,a,b); f=lambda: da.moveaxis(dx,a,b); kw=(a,b)
        elif op=='swapaxes': a,b=rng.randrange(-nd,nd),rng.randrange(-nd,nd); e=np.swapaxes(x,a,b); f=lambda: da.swapaxes(dx,a,b); kw=(a,b)
        elif op=='squeeze': ax=rng.choice([None]+[i for i,s in enumerate(shape) if s==1]); e=np.squeeze(x,axis=ax); f=lambda: da.squeeze(dx,axis=ax); kw=ax
        elif op=='expand_dims': ax=rng.randrange(-nd-1,nd+1); e=np.expand_dims(x,ax); f=lambda: da.expand_dims(dx,ax); kw=ax
        elif op in('concatenate','stack'):
            k=rng.randint(1,3); ax=rng.randrange(-nd,nd); xs=[x]+[rand_data(rng,shape,'int64') for _ in range(k)]; dxs=[dx]+[da.from_array(a,chunks=rand_chunks(rng,shape)) if rng.random()<.7 else a for a in xs[1:]]
            e=getattr(np,op)(xs,axis=ax); f=lambda: getattr(da,op)(dxs,axis=ax); kw=(k,ax)
        elif op=='block':
            y=rand_data(rng,shape,'int64'); dy=da.from_array(y,chunks=rand_chunks(rng,shape)); e=np.block([[x,y],[y,x]]) if nd>=2 else np.block([x,y]); f=lambda: da.block([[dx,dy],[dy,dx]]) if nd>=2 else da.block([dx,dy])
        elif op=='broadcast_to': tgt=tuple(rng.randint(1,3) for _ in range(rng.randint(0,2)))+tuple(s if s!=1 else rng.randint(1,3) for s in shape); e=np.broadcast_to(x,tgt); f=lambda: da.broadcast_to(dx,tgt); kw=tgt
        elif op=='flip': ax=rng.choice([None,rng.randrange(-nd,nd)]); e=np.flip(x,ax); f=lambda: da.flip(dx,ax); kw=ax
        elif op=='rot90':
            if nd<2: S.rej+=1; continue
            k=rng.randint(-3,5); axes=tuple(rng.sample(range(nd),2)); e=np.rot90(x,k,axes); f=lambda: da.rot90(dx,k,axes); kw=(k,axes)
        elif op=='take':
            ax=rng.randrange(nd); n=shape[ax]
            if n==0: S.rej+=1; continue
            idx=[rng.randrange(-n,n) for _ in range(rng.randint(1,n+2))]; e=np.take(x,idx,axis=ax); f=lambda: da.take(dx,idx,axis=ax); kw=(idx,ax)
        elif op=='repeat': ax=rng.choice([None,rng.randrange(nd)]); r=rng.randint(0,3); e=np.repeat(x,r,axis=ax); f=lambda: da.repeat(dx,r,axis=ax); kw=(r,ax)
        elif op=='tile': reps=rng.choice([rng.randint(0,3),tuple(rng.randint(0,2) for _ in range(rng.randint(1,nd+1)))]); e=np.tile(x,reps); f=lambda: da.tile(dx,reps); kw=reps
        elif op=='pad':
            mode=rng.choice(['constant','edge','linear_ramp','maximum','mean','minimum','reflect','symmetric','wrap','median']); pw=rng.choice([rng.randint(0,3),tuple((rng.randint(0,3),rng.randint(0,3)) for _ in range(nd))])
            e=np.pad(x,pw,mode=mode); f=lambda: da.pad(dx,pw,mode=mode); kw=(pw,mode)
        elif op in('tril','triu'):
            if nd<2: S.rej+=1; continue
            k=rng.randint(-3,3); e=getattr(np,op)(x,k); f=lambda: getattr(da,op)(dx,k); kw=k
        elif op=='diff': ax=rng.randrange(-nd,nd); n=rng.randint(0,3); e=np.diff(x,n,axis=ax); f=lambda: da.diff(dx,n,axis=ax); kw=(n,ax)
        elif op=='roll': ax=rng.choice([None,rng.randrange(-nd,nd)]); sh=rng.randint(-7,7); e=np.roll(x,sh,ax); f=lambda: da.roll(dx,sh,ax); kw=(sh,ax)
        elif op=='arange':
            a=rng.choice([0,1,-3,0.5,2.25]); st=rng.choice([0.1,0.3,0.7,1,2,-0.1,-0.3,0.25,3,1.1]); b=a+st*rng.randrange(0,20)+rng.choice([0,st/2,-st/2]); c=rng.randint(1,7); dt=rng.choice([None,None,'float32','int64'])
            e=np.arange(a,b,st,dtype=dt); f=lambda: da.arange(a,b,st,chunks=c,dtype=dt); kw=(a,b,st,c,dt)
        elif op=='linspace':
            a,b=rng.uniform(-5,5),rng.uniform(-5,5); n=rng.randint(0,15); ep=rng.random()<.7; c=rng.randint(1,6); e=np.linspace(a,b,n,endpoint=ep); f=lambda: da.linspace(a,b,n,endpoint=ep,chunks=c); kw=(a,b,n,ep,c)
        elif op=='eye': n=rng.randint(0,7); m=rng.choice([None,rng.randint(0,7)]); k=rng.randint(-4,4); c=rng.randint(1,5); e=np.eye(n,m,k); f=lambda: da.eye(n,chunks=c,M=m,k=k); kw=(n,m,k,c)
        elif op=='diag':
            if nd>2: S.rej+=1; continue
            k=rng.randint(-3,3); e=np.diag(x,k); f=lambda: da.diag(dx,k); kw=k
        elif op=='diagonal':
            if nd<2: S.rej+=1; continue
            a1,a2=rng.sample(range(nd),2); k=rng.randint(-3,3); e=np.diagonal(x,k,a1,a2); f=lambda: da.diagonal(dx,k,a1,a2); kw=(k,a1,a2)
        elif op=='indices': dims=tuple(rng.randint(0,4) for _ in range(rng.randint(1,3))); c=tuple(rng.randint(1,3) for _ in dims); e=np.indices(dims); f=lambda: da.indices(dims,chunks=c); kw=(dims,c)
        elif op=='tri': n=rng.randint(0,6); m=rng.choice([None,rng.randint(0,6)]); k=rng.randint(-3,3); c=rng.randint(1,4); e=np.tri(n,m,k); f=lambda: da.tri(n,m,k,chunks=c); kw=(n,m,k,c)
        elif op=='full_like': v=rng.choice([0,1,2.5,-1]); fn=rng.choice(['ones_like','zeros_like','full_like']); e=getattr(np,fn)(x,*([v] if fn=='full_like' else [])); f=lambda: getattr(da,fn)(dx,*([v] if fn=='full_like' else [])); kw=(fn,v)
        elif op=='unique':
            ri,rv,rc=[rng.random()<.5 for _ in range(3)]; e=np.unique(x.ravel(),return_index=ri,return_inverse=rv,return_counts=rc); f=lambda: da.compute(da.unique(dx.ravel(),return_index=ri,return_inverse=rv,return_counts=rc))[0]; kw=(ri,rv,rc)
        elif op=='bincount':
            v=np.abs(x.ravel()).astype('int64'); dv=da.from_array(v,chunks=rng.choice(compositions(len(v))) if 0<len(v)<10 else -1); ml=rng.choice([0,3,10]); w=rng.random()<.4; ww=np.arange(len(v))/2.
            e=np.bincount(v,weights=ww if w else None,minlength=ml); f=lambda: da.bincount(dv,weights=da.from_array(ww,chunks=dv.chunks) if w else None,minlength=ml); kw=(ml,w)
        elif op=='histogram':
            bins=rng.choice([3,5,[-3,-1,0,2,4]]); rngg=(-3,3); w=rng.random()<.3; dens=rng.random()<.3
            e=np.histogram(x,bins=bins,range=rngg if isinstance(bins,int) else None,density=dens)[0]; f=lambda: da.histogram(dx,bins=bins,range=rngg if isinstance(bins,int) else None,density=dens)[0]; kw=(bins,dens)
        elif op=='digitize': bins=np.array([-2,0,1,3.]); r=rng.random()<.5; e=np.digitize(x,bins,right=r); f=lambda: da.digitize(dx,bins,right=r); kw=r
        elif op=='searchsorted':
            a=np.sort(rand_data(rng,(rng.randint(1,8),),'int64')); da_=da.from_array(a,chunks=rng.choice(compositions(len(a)))); side=rng.choice(['left','right']); e=np.searchsorted(a,x,side=side); f=lambda: da.searchsorted(da_,dx,side=side); kw=(a.tolist(),side)
        elif op=='isin': t=[0,1,2.5]; inv=rng.random()<.5; e=np.isin(x,t,invert=inv); f=lambda: da.isin(dx,t,invert=inv); kw=inv
        elif op=='nonzero': e=np.stack(np.nonzero(x)); f=lambda: np.stack(da.compute(*da.nonzero(dx)))
        elif op=='argwhere': e=np.argwhere(x); f=lambda: da.argwhere(dx)
        elif op=='flatnonzero': e=np.flatnonzero(x); f=lambda: da.flatnonzero(dx)
        elif op=='count_nonzero': ax=rng.choice([None,rng.randrange(nd)]); e=np.count_nonzero(x,axis=ax); f=lambda: da.count_nonzero(dx,axis=ax); kw=ax
        elif op=='ravel_multi_index':
            dims=tuple(rng.randint(1,4) for _ in range(2)); mi=np.array([[rng.randrange(d) for _ in range(5)] for d in dims]); dmi=da.from_array(mi,chunks=(rng.choice([1,2]),rng.choice([1,2,5]))); e=np.ravel_multi_index(mi,dims); f=lambda: da.ravel_multi_index(dmi,dims); kw=dims
        elif op=='unravel_index':
            dims=tuple(rng.randint(1,4) for _ in range(2)); v=np.array([rng.randrange(dims[0]*dims[1]) for _ in range(6)]); dv=da.from_array(v,chunks=rng.choice([1,2,6])); e=np.stack(np.unravel_index(v,dims)); f=lambda: da.unravel_index(dv,dims); kw=dims
        elif op=='coarsen':
            axes={i:rng.choice([1,2]) for i in range(nd)}
            if any(s%axes[i] for i,s in enumerate(shape)) or 0 in shape: S.rej+=1; continue
            e=x.reshape(sum(((s//axes[i],axes[i]) for i,s in enumerate(shape)),())).sum(axis=tuple(range(1,2*nd,2))); f=lambda: da.coarsen(np.sum,dx,axes); kw=axes
        elif op=='compress': ax=rng.randrange(nd); cond=[rng.random()<.5 for _ in range(shape[ax])]; e=np.compress(cond,x,axis=ax); f=lambda: da.compress(cond,dx,axis=ax); kw=(cond,ax)
        elif op=='meshgrid':
            a=np.arange(rng.randint(1,4)); b=np.arange(rng.randint(1,4))*2.; sp=rng.random()<.5; ix=rng.choice(['xy','ij']); e=np.stack([np.broadcast_to(m,np.broadcast_shapes(*[q.shape for q in np.meshgrid(a,b,sparse=sp,indexing=ix)])) for m in np.meshgrid(a,b,sparse=sp,indexing=ix)]); f=lambda: np.stack([np.broadcast_to(m,e.shape[1:]) for m in da.compute(*da.meshgrid(da.from_array(a,chunks=1),da.from_array(b,chunks=2),sparse=sp,indexing=ix))]); kw=(sp,ix)
    except Exception as ex: S.rej+=1; continue
    case=(op,shape,ch,kw)
    try:
        with np.errstate(all='ignore'):
            r=f(); 
            if hasattr(r,'compute'):
                lazy=(r.shape,r.dtype,r.chunks); rv=r.compute()
            else: lazy=None; rv=r
    except NotImplementedError: S.unsup+=1; continue
    except Exception as ex: S.report('EXC',(op,type(ex).__name__,str(ex)[:60]),str(ex)[:150],case); continue
    if isinstance(e,tuple):
        ms=[eq(a,b) for a,b in zip(rv,e)]; m=next((q for q in ms if q),None)
    else: m=eq(rv,e,approx=op in('linspace','arange','pad','histogram'))
    if m: S.report('NEQ',(op,m.split()[0],'empty' if 0 in shape else ''),m,case)
    elif lazy and not any(np.isnan(s) for s in lazy[0]) and (lazy[0]!=np.shape(e) or lazy[1]!=np.asarray(e).dtype or tuple(sum(c) for c in lazy[2])!=np.shape(e)): S.report('META',(op,),str(lazy),case)
S.dump(2)
