import numpy as np, dask, dask.array as da, itertools
from dask.blockwise import optimize_blockwise, Blockwise, fuse_roots
from dask.highlevelgraph import HighLevelGraph
from dask.core import flatten, get as core_get
from dask._task_spec import convert_legacy_graph
x=da.from_array(np.arange(12).reshape(3,4),chunks=(2,3)); y=da.from_array(np.arange(4),chunks=3)
with dask.annotate(priority=5, retries=2, resources={'GPU':1}, workers=['a','b']):
    z1=x+y
with dask.annotate(priority=1, retries=3, resources={'GPU':2,'MEM':1}, workers=['b','c'], allow_other_workers=False):
    z2=z1.T*2
z=da.tensordot(z2, x, axes=([0],[1]))
h=z.__dask_graph__(); print(type(h).__name__, [(n,type(l).__name__) for n,l in h.layers.items()])
keys=list(flatten(z.__dask_keys__())); print(keys)
full=core_get(dict(h), keys)
for sub in ([keys[0]], keys[1:3], keys):
    c=h.cull(set(sub)); v=core_get(dict(c), sub); print(len(sub), all(np.array_equal(a,b) for a,b in zip(v,[full[keys.index(k)] for k in sub])), len(dict(c)), len(dict(h)))
    for name,l in c.layers.items():
        if isinstance(l,Blockwise):
            out=set(l.get_output_keys()); _,deps=l.cull(out & set(dict(c)), set(dict(h)))
            mat=convert_legacy_graph(dict(l), all_keys=set(dict(h)))
            bad=[k for k in deps if set(deps[k])!=set(mat[k].dependencies)]
            print('   layer',name[:12],'cull deps ok', not bad, len(deps))
o=optimize_blockwise(h, keys=keys); print([ (n[:10],type(l).__name__, l.annotations) for n,l in o.layers.items()])
v=core_get(dict(o),keys); print(all(np.array_equal(a,b) for a,b in zip(v,full)))
