import sys, random, warnings, traceback
import pandas as pd, numpy as np
sys.path.insert(0, '/tmp/probe/shim')
import dask
dask.config.set({'dataframe.convert-string': False, 'scheduler':'sync'})
import dask.dataframe as dd
warnings.simplefilter('ignore')
def rand_frame(rng, nmax=30, index=None):
    n=rng.randint(0,nmax); r=np.random.default_rng(rng.randrange(2**32))
    df=pd.DataFrame({'a':r.integers(0,4,n),'b':r.choice(['x','y','z','w'],n).astype(object) if n else np.array([],dtype=object),
        'c':np.round(r.normal(size=n),2),'d':r.integers(-3,4,n).astype(float),'e':r.random(n)<.5})
    df['b']=df['b'].astype('str')
    if n: df.loc[df.index[r.random(n)<.2],'c']=np.nan
    kind=index or rng.choice(['range','sorted','dups','unsorted'])
    if kind=='sorted': df.index=np.sort(r.choice(np.arange(3*n+1),n,replace=False)) if n else df.index
    elif kind=='dups': df.index=np.sort(r.integers(0,max(1,n//2),n))
    elif kind=='unsorted': df.index=r.permutation(n)
    return df
def rand_part(rng, pdf, sort=None):
    n=len(pdf)
    k=rng.choice(['np','chunksize','slices'])
    if k=='np' or n==0: return dd.from_pandas(pdf, npartitions=rng.randint(1,5), sort=pdf.index.is_monotonic_increasing)
    if k=='chunksize': return dd.from_pandas(pdf, chunksize=rng.randint(1,max(1,n)), sort=pdf.index.is_monotonic_increasing)
    cuts=sorted(rng.randint(0,n) for _ in range(rng.randint(0,4)))
    bounds=[0]+cuts+[n]
    parts=[pdf.iloc[a:b] for a,b in zip(bounds[:-1],bounds[1:])]
    return dd.from_map(lambda p: p, parts, meta=pdf.iloc[:0])
def norm(x):
    return x
def cmp(r, e, sort=False, rtol=1e-9):
    try:
        if isinstance(e, pd.DataFrame):
            if not isinstance(r,pd.DataFrame): return 'kind %s'%type(r).__name__
            if sort:
                r=r.sort_values(list(r.columns)).reset_index(drop=True); e=e.sort_values(list(e.columns)).reset_index(drop=True)
            pd.testing.assert_frame_equal(r,e,rtol=rtol,check_index_type=False)
        elif isinstance(e, pd.Series):
            if not isinstance(r,pd.Series): return 'kind %s'%type(r).__name__
            if sort:
                r=r.sort_index(); e=e.sort_index()
            pd.testing.assert_series_equal(r,e,rtol=rtol,check_index_type=False)
        elif isinstance(e, pd.Index):
            pd.testing.assert_index_equal(r,e)
        else:
            if pd.isna(e) and pd.isna(r): return None
            if isinstance(e,(float,np.floating)):
                if not np.isclose(r,e,rtol=1e-9,equal_nan=True): return 'scalar %r vs %r'%(r,e)
            elif r!=e: return 'scalar %r vs %r'%(r,e)
    except AssertionError as ex: return str(ex).replace('\n',' ')[:220]
    return None
class Stats:
    def __init__(s): s.n=0; s.rej=0; s.unsup=0; s.bad={}
    def report(s, tag, key, msg, case): s.bad.setdefault((tag,key),[]).append((msg,case))
    def dump(s,k=2):
        print('cases',s.n,'ref-rejected',s.rej,'unsupported',s.unsup,'alarm classes',len(s.bad))
        for (tag,key),v in sorted(s.bad.items(), key=lambda kv:-len(kv[1])):
            print('  [%s] %s x%d'%(tag,key,len(v)))
            for msg,case in v[:k]: print('      ',msg[:260],'|',str(case)[:200])
