import sys
import pandas as pd, numpy as np
sys.path.insert(0, '/tmp/probe/shim')
import dask
dask.config.set({'dataframe.convert-string': False, 'scheduler':'sync'})
import dask.dataframe as dd
from dask._expr import optimize_until
from dask.core import flatten
pdf = pd.DataFrame({'a':np.arange(20)%5,'b':list('abcde')*4,'c':np.arange(20.)})
df = dd.from_pandas(pdf, npartitions=4)
q = df[df.a>1].assign(d=lambda x: x.c*2)[['b','d']].groupby('b').d.sum()
exp = pdf[pdf.a>1].assign(d=lambda x: x.c*2)[['b','d']].groupby('b').d.sum()
for stage in ["logical","simplified-logical","tuned-logical","physical","simplified-physical","fused"]:
    e = optimize_until(q.expr, stage)
    low = e.lower_completely()
    g = low.__dask_graph__(); keys = list(flatten(low.__dask_keys__()))
    parts = dask.get(g, keys)
    res = pd.concat(parts) if len(parts)>1 else parts[0]
    print(stage, type(e).__name__, len(g), res.sort_index().equals(exp.sort_index()))
o = q.optimize(); print(type(o.expr).__name__, o.optimize().compute().sort_index().equals(exp.sort_index()))
print(q.expr._meta, q.divisions, q.npartitions)
# partitions individually
print([q.partitions[i].compute().shape for i in range(q.npartitions)])
d2 = df.set_index('c'); print(d2.divisions, d2.known_divisions, [ (p.index.min(), p.index.max()) for p in (d2.partitions[i].compute() for i in range(d2.npartitions))])
