import sys, time, random, threading
from collections.abc import MutableMapping
import dask, dask.local as L, dask.threaded
class TC(MutableMapping):
    def __init__(self): self.d={}; self.ev=[]
    def __getitem__(self,k): self.ev.append(('get',k)); return self.d[k]
    def __setitem__(self,k,v): self.ev.append(('set',k)); self.d[k]=v
    def __delitem__(self,k): self.ev.append(('del',k)); del self.d[k]
    def __iter__(self): return iter(self.d)
    def __len__(self): return len(self.d)
inc=lambda x:x+1; add=lambda x,y:x+y
dsk={'a':1,'b':(inc,'a'),'c':(inc,'a'),'d':(add,'b','c'),'e':(inc,'d'),'f':(add,'b','e'),'g':(inc,'c')}
c=TC(); print(L.get_sync(dsk,['f','g'],cache=c), sorted(c.d), len(c.ev))
c=TC(); print(dask.threaded.get(dsk,['f','g'],cache=c,num_workers=3), sorted(c.d))
# sys.monitoring yield injection
mon=sys.monitoring; TID=3; mon.use_tool_id(TID,'vf')
hits={}
def codes(fn):
    out=[fn.__code__]
    for k in fn.__code__.co_consts:
        if hasattr(k,'co_code'): out.append(k)
    return out
targets=[]
for fn in (L.get_async, L.execute_task, L.batch_execute_tasks, L.finish_task, L.start_state_from_dask):
    targets+=codes(fn)
rng=random.Random(0); inj=[0]
def on_line(code, line):
    hits[(code.co_name,line)]=hits.get((code.co_name,line),0)+1
    if rng.random()<0.2: inj[0]+=1; time.sleep(0)
mon.register_callback(TID, mon.events.LINE, on_line)
for co in targets: mon.set_local_events(TID, co, mon.events.LINE)
t=time.time()
for i in range(50): assert dask.threaded.get(dsk,['f','g'],num_workers=3)==(7,3)
print('50 threaded gets', round(time.time()-t,3),'s; lines hit', len(hits), 'injections', inj[0], sorted({k[0] for k in hits}))
mon.free_tool_id(TID)
