import sys
import pandas as pd, numpy as np
sys.path.insert(0, '/tmp/probe/shim')
import dask
dask.config.set({'dataframe.convert-string': False})
import dask.dataframe as dd
print('dd ok', pd.compat.pyarrow.HAS_PYARROW if hasattr(pd.compat,'pyarrow') else None)
pdf = pd.DataFrame({'a':[1,2,3,4,5,6],'b':list('abcdef'),'c':[1.,2,None,4,5,6]})
print(pdf.dtypes)
df = dd.from_pandas(pdf, npartitions=3)
print(df.divisions, df.a.sum().compute())
print(df[df.a>2].groupby('b').c.sum().compute())
print(df.merge(df, on='a').compute().shape)
print(df.set_index('b').compute())
print(df.sort_values('c').compute())
print(df.c.rolling(2).sum().compute())
print(df.b.str.upper().compute())
print(df.repartition(npartitions=2).divisions)
import tempfile, os
d = tempfile.mkdtemp()
df.to_csv(d+'/x-*.csv', index=False)
print(dd.read_csv(d+'/x-*.csv', blocksize=20).compute())
