from arr_common import *
from dask.array.core import normalize_chunks
import sys
rng=random.Random(0); S=Stats()
def rand_spec(rng, shape):
    k=rng.choice(['int','tuple','dict','auto','bytes','mixed','explicit','neg1'])
    if k=='int': return rng.randint(1,7)
    if k=='tuple': return tuple(rng.choice([rng.randint(1,7),-1,None,'auto']) for _ in shape)
    if k=='dict': return {i:rng.choice([rng.randint(1,7),-1,'auto']) for i in range(len(shape)) if rng.random()<.6}
    if k=='auto': return 'auto'
    if k=='bytes': return rng.choice(['16B','64B','1kiB','100B'])
    if k=='neg1': return -1
    if k=='explicit': return tuple(rand_comp(rng,n) for n in shape)
    return tuple(rng.choice([rand_comp(rng,n), rng.randint(1,7), 'auto', '32B']) for n in shape)
for it in range(20000):
    shape=tuple(rng.choice([0,1,2,3,5,8,13,40,100]) for _ in range(rng.randint(1,3)))
    spec=rand_spec(rng,shape); dt=rng.choice(['int8','float64','float32','complex128']); limit=rng.choice([None,None,8,16,64,100,1000,'128B'])
    prev=tuple(rand_comp(rng,n) for n in shape) if rng.random()<.3 else None
    if prev is not None:
        prev=tuple(tuple(p) if sum(p)==n else (n,) for p,n in zip(prev,shape))
    S.n+=1; case=(spec,shape,dt,limit,prev)
    try: out=normalize_chunks(spec,shape=shape,dtype=dt,limit=limit,previous_chunks=prev)
    except Exception as ex: S.report('EXC',(type(ex).__name__,str(ex)[:50]),str(ex)[:120],case); continue
    ok=len(out)==len(shape) and all(sum(c)==n and (all(x>0 for x in c) if n>0 else c==(0,)) for c,n in zip(out,shape))
    if not ok: S.report('BAD',('sum/positivity',),str(out),case); continue
    # auto limit
    hasauto = spec=='auto' or (isinstance(spec,tuple) and 'auto' in spec) or (isinstance(spec,dict) and 'auto' in spec.values())
    if hasauto and limit is not None and all(n>0 for n in shape):
        from dask.utils import parse_bytes
        lim=parse_bytes(limit) if isinstance(limit,str) else limit
        isz=np.dtype(dt).itemsize
        big=max(np.prod([max(c) for c in out])*isz,0)
        if isz<=lim and big>lim:
            # only auto dims are constrained
            S.report('LIMIT',('over',),'%s bytes>%s %s'%(big,lim,out),case)
S.dump(3)
