from arr_common import *
import sys
rng=random.Random(int(sys.argv[1]) if len(sys.argv)>1 else 0); S=Stats()
def rand_slice(rng,n):
    f=lambda: rng.choice([None]+list(range(-n-1,n+2)))
    return slice(f(),f(),rng.choice([None,1,-1,2,-2,3,-3]))
def rand_index(rng, shape):
    idx=[]; used_fancy=0
    for n in shape:
        k=rng.choice(['slice','slice','int','list','bool','none','full','darr'])
        if k=='slice': idx.append(rand_slice(rng,n))
        elif k=='int':
            if n==0: idx.append(slice(None)); continue
            idx.append(rng.randrange(-n,n))
        elif k=='list':
            if n==0: idx.append([]); continue
            L=[rng.randrange(-n,n) for _ in range(rng.randint(0,n+2))]
            if rng.random()<.4: L=sorted(L)
            idx.append(L if rng.random()<.5 else np.array(L,dtype=int))
        elif k=='bool': idx.append(np.array([rng.random()<.5 for _ in range(n)],dtype=bool))
        elif k=='darr':
            if n==0: idx.append(slice(None)); continue
            L=np.array([rng.randrange(-n,n) for _ in range(rng.randint(1,n+1))]); idx.append(('darr',L))
        elif k=='none': idx.append(None); idx.append(slice(None))
        else: idx.append(slice(None))
    if rng.random()<.3 and idx:
        j=rng.randrange(len(idx)+1); cnt=sum(1 for i in idx[j:] if i is not None); 
        idx=idx[:j]+[Ellipsis]  # drop rest
    return idx
N=int(sys.argv[2]) if len(sys.argv)>2 else 4000
for it in range(N):
    shape=rand_shape(rng,maxnd=3,minnd=1); x=rand_data(rng,shape,rng.choice(['int64','float64']))
    ch=rand_chunks(rng,shape); dx=da.from_array(x,chunks=ch)
    idx=rand_index(rng,shape)
    nidx=tuple(i[1] if isinstance(i,tuple) and i and i[0]=='darr' else i for i in idx)
    didx=tuple(da.from_array(i[1],chunks=rng.choice(compositions(len(i[1])))) if isinstance(i,tuple) and i and i[0]=='darr' else i for i in idx)
    S.n+=1
    try: e=x[nidx]
    except Exception: S.rej+=1; continue
    case=(shape,ch,[str(i) for i in nidx])
    nfancy=sum(1 for i in nidx if isinstance(i,(list,np.ndarray)))
    try:
        r=dx[didx]; lazy=(r.shape,r.chunks); rv=r.compute()
    except NotImplementedError as ex: S.unsup+=1; continue
    except Exception as ex:
        S.report('EXC',(type(ex).__name__,str(ex)[:60],'nfancy=%d'%nfancy),str(ex)[:150],case); continue
    m=eq(rv,e)
    if m: S.report('NEQ',(m.split()[0],'nfancy=%d'%nfancy),m,case); continue
    # lazy shape / chunks
    ls=tuple(l for l in lazy[0])
    if any((not np.isnan(l)) and l!=a for l,a in zip(ls,rv.shape)) or len(ls)!=rv.ndim: S.report('META',('shape',),str(lazy),case)
    else:
        for c,a in zip(lazy[1],rv.shape):
            if not any(np.isnan(v) for v in c) and sum(c)!=a: S.report('META',('chunks',),str(lazy),case)
S.dump()
