import sys, traceback
import pandas as pd, numpy as np
sys.path.insert(0, '/tmp/probe/shim')
import dask
dask.config.set({'dataframe.convert-string': False, 'scheduler':'sync'})
import dask.dataframe as dd
rng = np.random.default_rng(0)
n=40
pdf = pd.DataFrame({'a':rng.integers(0,5,n),'b':rng.choice(list('xyz'),n),'c':rng.normal(size=n),
   'd':pd.Categorical(rng.choice(['u','v','w'],n)), 'e':pd.array(rng.integers(0,3,n),dtype='Int64'),
   't':pd.date_range('2020-01-01',periods=n,freq='h')})
pdf.loc[3,'c']=np.nan
df = dd.from_pandas(pdf, npartitions=4)
def t(name, f, g=None):
    try:
        r = f(df).compute(); e = (g or f)(pdf)
        ok = 'ran'
    except Exception as ex:
        ok = 'ERR %s: %s' % (type(ex).__name__, str(ex)[:150])
    print(name, ok)
t('groupby split_out', lambda d: d.groupby('b').c.mean(split_out=2) if isinstance(d, dd.DataFrame) else d.groupby('b').c.mean())
t('groupby agg', lambda d: d.groupby(['a','b']).agg({'c':['sum','max'],'e':'count'}))
t('groupby cat', lambda d: d.groupby('d', observed=True).c.sum())
t('merge', lambda d: d.merge(d[['a','c']], on='a', how='left'))
t('merge shuffle', lambda d: d.merge(d[['a','c']], on='a', how='outer', broadcast=False) if isinstance(d, dd.DataFrame) else d.merge(d[['a','c']], on='a', how='outer'))
t('shuffle disk', lambda d: d.shuffle('a', shuffle_method='disk') if isinstance(d, dd.DataFrame) else d)
t('shuffle tasks', lambda d: d.shuffle('a', shuffle_method='tasks', max_branch=2) if isinstance(d, dd.DataFrame) else d)
t('set_index', lambda d: d.set_index('c'))
t('sort_values', lambda d: d.sort_values(['b','c']))
t('drop_dup', lambda d: d.drop_duplicates(subset=['a','b']))
t('nunique', lambda d: d.a.nunique())
t('value_counts', lambda d: d.b.value_counts())
t('describe', lambda d: d[['a','c']].describe())
t('rolling', lambda d: d.c.rolling(3, min_periods=1).mean())
t('rolling time', lambda d: d.set_index('t').c.rolling('3h').sum())
t('cumsum', lambda d: d[['a','c']].cumsum())
t('shift', lambda d: d.c.shift(2))
t('diff', lambda d: d.c.diff(-1))
t('ffill', lambda d: d.c.ffill(limit=1))
t('dt', lambda d: d.t.dt.hour)
t('str', lambda d: d.b.str.upper().str.len())
t('cat', lambda d: d.d.cat.codes)
t('isin', lambda d: d[d.b.isin(['x','y'])])
t('where', lambda d: d.c.where(d.a>2, -1))
t('astype', lambda d: d.a.astype('float32'))
t('loc', lambda d: d.loc[5:20])
t('repartition div', lambda d: d.repartition(divisions=[0,10,39]) if isinstance(d, dd.DataFrame) else d)
t('repartition size', lambda d: d.repartition(partition_size='1kB') if isinstance(d, dd.DataFrame) else d)
t('concat', lambda d: dd.concat([d,d]) if isinstance(d, dd.DataFrame) else pd.concat([d,d]))
t('concat ax1', lambda d: dd.concat([d[['a']],d[['c']]],axis=1) if isinstance(d, dd.DataFrame) else pd.concat([d[['a']],d[['c']]],axis=1))
t('idxmax', lambda d: d.c.idxmax())
t('cov', lambda d: d[['a','c']].cov())
t('mode', lambda d: d.a.mode())
t('nlargest', lambda d: d.nlargest(3,'c'))
t('quantile', lambda d: d.c.quantile(0.5))
t('map_overlap', lambda d: d.map_overlap(lambda x: x.rolling(2).sum(), 1, 0) if isinstance(d, dd.DataFrame) else d.rolling(2).sum())
t('merge_asof', lambda d: dd.merge_asof(d[['t','c']], d[['t','a']], on='t') if isinstance(d, dd.DataFrame) else pd.merge_asof(d[['t','c']], d[['t','a']], on='t'))
t('to_parquet', lambda d: d.to_parquet('/tmp/probe/pq') if isinstance(d, dd.DataFrame) else d)
print(df.optimize().expr.tree_repr() if hasattr(df.optimize().expr,'tree_repr') else '')
