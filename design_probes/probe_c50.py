import os, random, tempfile, sys, warnings
import dask, dask.bag as db
from dask.bytes import read_bytes
dask.config.set(scheduler='sync'); warnings.simplefilter('ignore')
rng=random.Random(0); d=tempfile.mkdtemp(); bad={}; n=0
def gen(rng, delim):
    parts=[]
    for _ in range(rng.randint(0,8)):
        k=rng.random()
        if k<.5: parts.append(bytes(rng.choice(b'abxy') for _ in range(rng.randint(0,5))))
        elif k<.85: parts.append(delim)
        else: parts.append(delim[:rng.randint(1,len(delim))])
    return b''.join(parts)
for it in range(3000):
    delim=rng.choice([b'\n',b'|',b'ab',b'aa',b'aba',b'\r\n',b'xyx'])
    content=gen(rng,delim); p=os.path.join(d,'f%d.txt'%(it%5)); open(p,'wb').write(content)
    bs=rng.choice([1,2,3,4,5,7,10,100]); n+=1
    try:
        _,blocks=read_bytes(p,delimiter=delim,blocksize=bs,sample=False)
        vals=[b.compute() for b in blocks[0]]
    except Exception as e:
        bad.setdefault(('EXC-bytes',type(e).__name__,str(e)[:40]),[]).append((content,delim,bs)); continue
    if b''.join(vals)!=content: bad.setdefault(('concat',),[]).append((content,delim,bs,vals))
    else:
        off=0
        for v in vals[:-1]:
            off+=len(v)
            if v and not content[:off].endswith(delim): bad.setdefault(('boundary',delim),[]).append((content,delim,bs,vals)); break
    # read_text
    try: text=content.decode()
    except Exception: continue
    dl=delim.decode()
    exp=[]
    if text:
        parts=text.split(dl); exp=[t+dl for t in parts[:-1]]+([parts[-1]] if parts[-1]!='' else [])
    if dl in ('\n','\r\n'):
        import io
        exp=list(io.StringIO(text,newline=dl)) if False else exp
    for bsz in (None,bs):
        try: got=db.read_text(p,linedelimiter=dl,blocksize=bsz).compute()
        except Exception as e:
            bad.setdefault(('EXC-text',bsz is None,type(e).__name__,str(e)[:40]),[]).append((content,delim,bs)); continue
        if got!=exp: bad.setdefault(('text',bsz is None,dl),[]).append((content,bs,got,exp))
print('cases',n)
for k,v in sorted(bad.items(),key=lambda kv:-len(kv[1])): print(k,len(v),v[0])
