#!/bin/bash
# usage: tools/apply_fixes.sh fixes_ready/CNN_*.patch   -> git am each onto /repo (stops at the first failure)
for p in "$@"; do
  echo "== $p"
  git -C /repo am -q --keep-cr "$(realpath $p)" || { echo "FAILED: $p"; git -C /repo am --abort; exit 1; }
  git -C /repo log --oneline -1
  mkdir -p /verif/fixes_applied && git -C /verif mv "$p" /verif/fixes_applied/ 2>/dev/null || mv "$p" /verif/fixes_applied/
done
