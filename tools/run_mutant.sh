#!/bin/bash
# usage: tools/run_mutant.sh C07 path/to/patch.diff [tier]   -> runs the check against a scratch copy of /repo with the patch applied
set -u
PID=$1; PATCH=$(realpath "$2"); TIER=${3:-quick}
SCR=$(mktemp -d /var/tmp/vf-mut-XXXXXX)
trap 'rm -rf "$SCR"' EXIT
rsync -a --exclude .git --exclude '__pycache__' /repo/ "$SCR/"
( cd "$SCR" && patch -p1 -s < "$PATCH" ) || { echo "PATCH FAILED"; exit 3; }
cd /verif
VERIF_REPO="$SCR" VF_SHARDS=${VF_SHARDS:-8} /venv/bin/python -m vf check "$PID" --tier "$TIER" 2>&1 | sed "s#$SCR#<scratch>#g" | cut -c1-600
rc=${PIPESTATUS[0]}
echo "mutant exit=$rc"
exit $rc
