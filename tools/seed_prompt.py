"""Prints the prompt for a seeded-break sub-agent: ONLY the property text + worktree instructions."""
import json, sys
pid = sys.argv[1]
tests = sys.argv[2] if len(sys.argv) > 2 and sys.argv[2] else "the test files of the modules you touch"
prop = pid[:3]
avoid = sys.argv[3] if len(sys.argv) > 3 else ''
p = next(json.loads(l) for l in open('/verif/properties.jsonl') if json.loads(l)['id'] == prop)
df_note = ""
if prop in {"C36","C37","C38","C39","C40","C41","C42","C43","C44","C45","C46","C47","C13","C14","C16"}:
    df_note = ("\nEnvironment note: pyarrow is not installed, so `import dask.dataframe` fails as is. An import stub is provided at "
               "/tmp/seed/shim (not part of dask): in any program that needs dask.dataframe do `import pandas, sys; "
               "sys.path.append('/tmp/seed/shim'); import dask; dask.config.set({'dataframe.convert-string': False}); "
               "import dask.dataframe as dd` (pandas must be imported BEFORE the stub path is added). The repository's dataframe "
               "tests cannot run here; make sure the other test files you can run still pass.\n")
print(f"""You are working in a scratch git worktree of the dask library at /tmp/seed/{pid} (a checkout of the current source; interpreter /venv/bin/python; run programs with `PYTHONPATH=/tmp/seed/{pid} /venv/bin/python prog.py` so that YOUR worktree is imported — verify with `import dask; print(dask.__file__)`). There is no network. Work only inside /tmp/seed/{pid} and /tmp/seed/{pid}.out; do not look at or use anything under /verif or /repo.
{df_note}
This is an exercise in testing a verification suite: the library is claimed to satisfy the following property.

PROPERTY {prop}: {p['title']}
Statement: {p['statement']}
Scope of the claim: {p['quantifier']['text']}
Code involved: {', '.join(p['anchors'].get('files', []))}

{('An earlier exercise already used this change, so pick a DIFFERENT mechanism in different code: ' + avoid + chr(10) + chr(10)) if avoid else ''}Your task: make ONE small, realistic change to the library source (under dask/) that BREAKS this property while
 (a) the package still imports and ordinary use still works,
 (b) the repository's existing tests still pass — run at least {tests} with `cd /tmp/seed/{pid} && /venv/bin/python -m pytest -q -p no:cacheprovider -x <files>` before and after your change and make sure the set of passing tests is unchanged,
 (c) the breakage needs something SPECIFIC to manifest — a particular interleaving or completion order, a failure at a particular point, a multi-step sequence of operations, an unusual input (size, chunking, dtype, boundary value), a particular configuration value, or two cooperating sites that each look fine alone — NOT something that ordinary use or a casual smoke test would expose at once. Think of the kind of bug a plausible refactoring or "optimisation" could introduce (an off-by-one at a boundary, a dropped case in a condition, a cache/key that ignores one argument, a wrong tie-break, state not restored on one path...).

Deliver, in /tmp/seed/{pid}.out/ :
 1. patch.diff — output of `git -C /tmp/seed/{pid} diff` (the change only; do not commit);
 2. demo.py — a small standalone program that demonstrates the breakage: it must exit with a non-zero status (assertion failure) when run against the changed tree and exit 0 when run against the unchanged tree (to check both: `git diff > /tmp/seed/'{pid}'.out/p.diff; git apply -R ...; run; git apply ...` — do NOT use `git stash`: the worktrees share one stash stack with other people); it is run as `PYTHONPATH=<tree> /venv/bin/python demo.py`;
 3. notes.md — 5-10 lines: what the change is, why the existing tests do not notice, and exactly what is needed for the breakage to manifest.
Verify all three yourself (demo fails with the change, passes without; the test files pass with the change). Your final message: the one-paragraph summary of notes.md plus the exact test command you ran and its result.""")
