#!/bin/bash
# usage: tools/seed_eval.sh CNN "<pytest files to confirm>" [check ids...]
# Confirms a seeded change (demo fails with it / passes without; tests pass) and runs our checks against it.
set -u
ID=$1; TESTS=${2:-}; shift 2 || true
CHECKS=${@:-$ID}
OUT=/tmp/seed/$ID.out
DEST=/verif/seeded/$ID
mkdir -p $DEST
cp $OUT/patch.diff $OUT/demo.py $DEST/ 2>/dev/null
[ -f $OUT/notes.md ] && cp $OUT/notes.md $DEST/notes.md
SCR=$(mktemp -d /var/tmp/vf-seed-XXXXXX)
trap 'rm -rf "$SCR"' EXIT
rsync -a --exclude .git --exclude '__pycache__' /repo/ "$SCR/"
( cd "$SCR" && patch -p1 -s < $DEST/patch.diff ) || { echo "PATCH FAILED"; exit 3; }
echo "== demo on unchanged tree"; ( cd /tmp && PYTHONPATH=/repo timeout 600 /venv/bin/python $DEST/demo.py >/dev/null 2>&1 ); echo "exit=$?"
echo "== demo on changed tree";   ( cd /tmp && PYTHONPATH=$SCR timeout 600 /venv/bin/python $DEST/demo.py >/dev/null 2>&1 ); echo "exit=$?"
if [ -n "$TESTS" ]; then
  echo "== repository tests on changed tree: $TESTS"
  ( cd "$SCR" && timeout 3000 /venv/bin/python -m pytest -q -p no:cacheprovider -n 4 $TESTS 2>&1 | tail -2 )
fi
cd /verif
for c in $CHECKS; do
  echo "== check $c (quick) on changed tree"
  VERIF_REPO="$SCR" VF_SHARDS=${VF_SHARDS:-8} /venv/bin/python -m vf check "$c" --tier quick 2>&1 | sed "s#$SCR#<scratch>#g" | grep -v "^  monitors\|^  distinct" | cut -c1-400 | tail -6
  echo "check $c exit=${PIPESTATUS[0]}"
done
