"""usage: seed_meta.py ID "needs" "caught_by_check:label;..." "notes"  -> writes /verif/seeded/ID/meta.json"""
import json, sys, os
pid, needs, caught, ran = sys.argv[1:5]
d = {"property": pid[:3], "seed_id": pid, "breaks": json.loads(next(l for l in open('/verif/properties.jsonl') if json.loads(l)['id']==pid[:3]))['title'],
     "needs_to_manifest": needs,
     "confirmed": "demo.py exits 0 on the unchanged tree and non-zero on the changed tree; the repository test files named in 'ran' pass with the change",
     "ran": ran,
     "detected_by": [c.strip() for c in caught.split(';') if c.strip()]}
os.makedirs('/verif/seeded/%s' % pid, exist_ok=True)
json.dump(d, open('/verif/seeded/%s/meta.json' % pid, 'w'), indent=1)
print(d["detected_by"])
