"""Consistency check of the committed known-findings files: required fields, duplicate keys, fixed lines naming
commits that exist in /repo and start with 'fix:'."""
import glob, json, os, re, subprocess, sys
root = os.path.dirname(os.path.dirname(os.path.abspath(__file__)))
files = [os.path.join(root, "known_findings.json")] + sorted(glob.glob(os.path.join(root, "known_findings.d", "*.json")))
subjects = {}
for l in subprocess.check_output(["git", "-C", "/repo", "log", "--format=%h\t%s"]).decode().splitlines():
    h, s = l.split("\t", 1); subjects[h] = s
bad = 0; keys = {}; nk = nf = 0
for f in files:
    d = json.load(open(f))
    for e in d.get("findings", []):
        nk += 1
        for fld in ("property", "key", "what", "why_not_fixed"):
            if not e.get(fld):
                print("MISSING", fld, os.path.basename(f), e.get("key")); bad += 1
        if not (e.get("witness") or e.get("mechanism")):
            print("NO-WITNESS", os.path.basename(f), e.get("key")); bad += 1
        k = (e.get("property"), e.get("key"))
        if k in keys:
            print("DUPLICATE", k, os.path.basename(f), keys[k]); bad += 1
        keys[k] = os.path.basename(f)
    for line in d.get("fixed", []):
        nf += 1
        m = re.match(r"fixed: property=(C\d+) (\S+) ", line)
        if not m:
            print("BAD-FIXED-LINE", os.path.basename(f), line[:80]); bad += 1; continue
        for h in m.group(2).split("/"):
            hs = [x for x in subjects if x.startswith(h[:7]) or h.startswith(x)]
            if not hs:
                print("UNKNOWN-COMMIT", os.path.basename(f), line[:100]); bad += 1
            elif not subjects[hs[0]].startswith("fix:"):
                print("NOT-A-FIX-COMMIT", hs[0], subjects[hs[0]][:60]); bad += 1
fixc = sum(1 for s in subjects.values() if s.startswith("fix:"))
named = set()
for f in files:
    for line in json.load(open(f)).get("fixed", []):
        m = re.match(r"fixed: property=(C\d+) (\S+) ", line)
        if m:
            for h in m.group(2).split("/"):
                named.update(x for x in subjects if x.startswith(h[:7]) or h.startswith(x))
unnamed = [h for h, s in subjects.items() if s.startswith("fix:") and h not in named]
print("known", nk, "fixed lines", nf, "fix commits in /repo", fixc, "fix commits without a fixed line", len(unnamed))
for h in unnamed[:40]:
    print("  UNRECORDED", h, subjects[h][:90])
sys.exit(1 if bad else 0)
