"""usage: retire_known.py PROPERTY COMMIT "key1" "key2" ...   moves known-finding entries (exact keys, or prefix* patterns)
of PROPERTY from findings to fixed lines in whatever known_findings file holds them."""
import fnmatch, glob, json, os, sys
prop, commit, pats = sys.argv[1], sys.argv[2], sys.argv[3:]
root = os.path.dirname(os.path.dirname(os.path.abspath(__file__)))
files = [os.path.join(root, "known_findings.json")] + sorted(glob.glob(os.path.join(root, "known_findings.d", "*.json")))
n = 0
for f in files:
    d = json.load(open(f)); keep = []; ch = False
    for e in d.get("findings", []):
        if e.get("property") == prop and any(fnmatch.fnmatchcase(e.get("key", ""), p) for p in pats):
            d.setdefault("fixed", []).append("fixed: property=%s %s %s (label %s)" % (prop, commit, (e.get("what") or "")[:200], e["key"]))
            ch = True; n += 1
        else:
            keep.append(e)
    if ch:
        d["findings"] = keep
        json.dump(d, open(f, "w"), indent=1)
print("retired", n)
