"""Regenerates the machine-derived tables of DESIGN.md section 10 (between the GENERATED markers):
repairs (from the `fixed:` lines), known findings (from known_findings.json + known_findings.d/*.json) and the
seeded-change table (from seeded/*/meta.json).  Hand-written prose outside the markers is left alone."""
import glob
import json
import os
import re

ROOT = os.path.dirname(os.path.dirname(os.path.abspath(__file__)))
BEGIN, END = "<!-- BEGIN GENERATED TABLES -->", "<!-- END GENERATED TABLES -->"


def load_findings():
    files = [os.path.join(ROOT, "known_findings.json")] + sorted(glob.glob(os.path.join(ROOT, "known_findings.d", "*.json")))
    known, fixed = [], []
    for f in files:
        try:
            d = json.load(open(f))
        except Exception:  # noqa: BLE001
            continue
        for e in d.get("findings", []):
            known.append(e)
        for line in d.get("fixed", []):
            fixed.append(line)
    return known, fixed


def main():
    claimed = [l.strip() for l in open(os.path.join(ROOT, "claimed.txt")) if l.strip()]
    known, fixed = load_findings()
    out = [BEGIN, ""]
    # ---- repairs
    per = {}
    for line in fixed:
        m = re.match(r"fixed: property=(C\d+) (\S+) (.*)", line)
        if m:
            per.setdefault(m.group(1), []).append((m.group(2), m.group(3)))
    out.append("### 10.3 Repairs made in dask (`fix:` commits), by the property whose check found them")
    out.append("")
    out.append("%d repairs recorded. Each line: commit, what failed (labels the check emitted before the repair)." % sum(len(v) for v in per.values()))
    out.append("")
    for pid in sorted(per):
        out.append("* **%s** (%d)" % (pid, len(per[pid])))
        for h, what in per[pid]:
            out.append("  * `%s` %s" % (h, what.replace("|", "\\|")[:400]))
    out.append("")
    # ---- known findings
    perk = {}
    for e in known:
        perk.setdefault(e.get("property", "?"), []).append(e)
    out.append("### 10.4 Known findings (genuine defects recorded, not repaired)")
    out.append("")
    out.append("%d entries; the key is the exact mechanism label a check emits; every entry in the JSON files has a witness and the "
               "reason it was not repaired. A check prints one `KNOWN-FINDING:` line per key it met and still exits 1 for any other label."
               % len(known))
    out.append("")
    for pid in sorted(perk):
        out.append("* **%s** (%d%s)" % (pid, len(perk[pid]), "" if pid in claimed else ", property not claimed"))
        for e in perk[pid]:
            out.append("  * `%s` — %s" % (e.get("key", "?"), (e.get("what", "") or "")[:300].replace("\n", " ")))
    out.append("")
    # ---- seeded
    out.append("### 10.5 Seeded changes and the checks that catch them")
    out.append("")
    out.append("Each change was produced by a fresh sub-agent that saw only the property text and a scratch worktree; it compiles, "
               "passes the repository tests named, and its `demo.py` fails only on the changed tree. Artifacts: `seeded/<id>/`.")
    out.append("")
    out.append("| property | needs, to manifest | caught by |")
    out.append("|---|---|---|")
    for f in sorted(glob.glob(os.path.join(ROOT, "seeded", "*", "meta.json"))):
        d = json.load(open(f))
        out.append("| %s | %s | %s |" % (d.get("seed_id", d.get("property")), d.get("needs_to_manifest", "").replace("|", "\\|"),
                                       "; ".join(d.get("detected_by", [])).replace("|", "\\|")))
    out += ["", END]
    p = os.path.join(ROOT, "DESIGN.md")
    s = open(p).read()
    block = "\n".join(out)
    if BEGIN in s and END in s:
        s = s[: s.index(BEGIN)] + block + s[s.index(END) + len(END):]
    else:
        s = s.rstrip("\n") + "\n\n" + block + "\n"
    open(p, "w").write(s)
    print("repairs", sum(len(v) for v in per.values()), "known", len(known), "seeded", len(glob.glob(os.path.join(ROOT, "seeded", "*", "meta.json"))))


if __name__ == "__main__":
    main()
