"""Regenerates MANIFEST.json from the property modules' own metadata.
Run:  /venv/bin/python tools/gen_manifest.py   (from /verif)"""
import importlib
import json
import os
import re
import sys

HERE = os.path.dirname(os.path.dirname(os.path.abspath(__file__)))
sys.path.insert(0, HERE)

NOT_BUILT = "monitor not built (yet) in this session; the property is decidable by this family, see DESIGN.md section 5"
REASONS = {}
# properties whose check is calibrated on the unchanged tree (maintained by hand)
CLAIMED = [l.strip() for l in open(os.path.join(HERE, "claimed.txt")) if l.strip() and not l.startswith("#")]

def main():
    props = [json.loads(l) for l in open(os.path.join(HERE, "properties.jsonl"))]
    ids = [p["id"] for p in props]
    checks, na = [], []
    for pid in ids:
        path = os.path.join(HERE, "vf", "props", pid.lower() + ".py")
        mod = None
        if os.path.exists(path) and pid in CLAIMED:
            mod = importlib.import_module("vf.props." + pid.lower())
        if mod is None or pid not in CLAIMED:
            na.append({"property_id": pid, "reason": getattr(mod, "NOT_CLAIMED_REASON", REASONS.get(pid, NOT_BUILT))})
            continue
        c = {
            "property_id": pid,
            "quick_cmd": "/venv/bin/python -m vf check %s --tier quick" % pid,
            "thorough_cmd": "/venv/bin/python -m vf check %s --tier thorough" % pid,
            "evidence_file": "/verif/evidence/%s.json" % pid,
            "replay_cmd_template": "/venv/bin/python -m vf replay {path}",
            "engine": getattr(mod, "ENGINE", "vf"),
            "level_claimed": {
                "category": getattr(mod, "LEVEL", "exploration"),
                "text": mod.CLAIM,
                "design_ref": getattr(mod, "DESIGN_REF", "DESIGN.md section 5, " + pid),
            },
            "level_note": mod.LEVEL_NOTE,
            "technique": getattr(mod, "TECHNIQUE", "runtime monitoring: oracle over observed executions of the real code"),
        }
        checks.append(c)
    man = {
        "version": 1,
        "setup_cmd": "/venv/bin/python -m vf selftest",
        "hooks": {
            "guard": "DASK_VERIF",
            "enable": "no source hooks exist: checks run the working tree of /repo in a fresh interpreter (PYTHONPATH=/verif:/repo) with DASK_VERIF=1 set; all observation points are public parameters or module globals rebound by the harness in its own process",
            "baseline_off_cmd": "cd /repo && env -u DASK_VERIF /venv/bin/python -m pytest -ra -q -p no:cacheprovider --timeout=900 --continue-on-collection-errors",
            "source_commits": [],
            "add_only": True,
        },
        "engines": [
            {"name": "vf", "path": "/verif/vf", "serves_properties": [c["property_id"] for c in checks],
             "kind_free_text": "runtime-monitoring harness: sharded workload generators, monitors/oracles over recorded events of the real dask code, three-valued verdicts, known-finding classifier"},
        ],
        "checks": checks,
        "notes": "All checks: exit 0 held on what was observed, exit 1 + VIOLATION line, exit 2 + INCONCLUSIVE line (a deciding monitor was not reached). Known findings (committed, never written at run time): /verif/known_findings.json and /verif/known_findings.d/*.json, keyed by exact mechanism label; their 'fixed' lists record repaired defects by commit. Seeded changes used to validate the monitors: /verif/seeded/.",
        "not_applicable": na,
    }
    with open(os.path.join(HERE, "MANIFEST.json"), "w") as f:
        json.dump(man, f, indent=1)
        f.write("\n")
    print("claimed", len(checks), "not claimed", len(na))

main()
