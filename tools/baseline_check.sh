#!/bin/bash
# Runs the repository's pinned suite with the guard off and compares with BASELINE.json stable_pass.
OUT=${1:-/var/tmp/vf-baseline.xml}
cd /repo && env -u DASK_VERIF /venv/bin/python -m pytest -ra -q -p no:cacheprovider --timeout=900 --continue-on-collection-errors -n 8 --junitxml=$OUT > /var/tmp/vf-baseline.log 2>&1
/venv/bin/python - "$OUT" <<'PY'
import json, sys, xml.etree.ElementTree as ET
b = json.load(open('/root/.vp/BASELINE.json'))
stable = set(b['stable_pass'])
passed = set()
for tc in ET.parse(sys.argv[1]).getroot().iter('testcase'):
    name = tc.get('classname') + '::' + tc.get('name')
    if not any(ch.tag in ('failure', 'error', 'skipped') for ch in tc):
        passed.add(name)
missing = sorted(stable - passed)
print('stable_pass', len(stable), 'passed now', len(passed), 'stable tests not passing now:', len(missing))
for m in missing[:40]:
    print('  ', m)
PY
